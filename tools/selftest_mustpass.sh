#!/bin/bash
# Must-pass corpus: behaviour-preserving edits (selftest/mustpass/*.diff) must NOT raise an alarm.
# Known, documented exceptions are listed in selftest/mustpass/EXPECTED_ALARMS (one diff name per line).
cd /verif
quiet=0; alarm=0; expected=0
for f in selftest/mustpass/*.diff; do
  out=$(tools/mustpass_one.sh /verif/$f 2>&1 | tail -1)
  if echo "$out" | grep -q '^QUIET'; then quiet=$((quiet+1)); echo "$out" | cut -c1-120
  elif grep -qx "$(basename $f)" selftest/mustpass/EXPECTED_ALARMS 2>/dev/null; then expected=$((expected+1)); echo "EXPECTED-$out" | cut -c1-260
  else alarm=$((alarm+1)); echo "$out" | cut -c1-400; fi
done
echo "must-pass: quiet=$quiet expected-alarms=$expected unexpected-alarms=$alarm"
