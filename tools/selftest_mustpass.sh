#!/bin/bash
# Must-pass corpus: harmless edits must NOT raise an alarm (all 19 checks exit 0).
cd /verif
for f in selftest/mustpass/*.diff; do
  sc=$(mktemp -d /tmp/mptry.XXXXXX); rsync -a --exclude .git /repo/ $sc/
  (cd $sc && patch -p1 -s --no-backup-if-mismatch < /verif/$f) || { echo "PATCH? $f"; rm -rf $sc; continue; }
  (cd $sc && GOFLAGS=-mod=mod GOPROXY=off GOSUMDB=off GOTOOLCHAIN=local go build ./... ) || { echo "NOBUILD $f"; rm -rf $sc; continue; }
  bad=""
  for p in C02 C03 C04 C05 C06 C07 C08 C09 C10 C11 C12 C13 C14 C15 C16 C17 C18 C19 C20; do
    ${GOVC:-/verif/bin/govc} check $p --repo $sc --no-evidence >/tmp/mp.out 2>&1 || bad="$bad $p:$(grep '^FAILED' /tmp/mp.out | head -1 | cut -c8-90)"
  done
  rm -rf $sc
  if [ -z "$bad" ]; then echo "QUIET  $f"; else echo "ALARM  $f ::$bad"; fi
done
