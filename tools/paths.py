#!/usr/bin/env python3
# usage: paths.py <obligation substring> <func substring> [timeout]  -- times every path query of an obligation on each solver
import subprocess,sys
ob,fn=sys.argv[1],sys.argv[2]
to=sys.argv[3] if len(sys.argv)>3 else '30'
t=subprocess.run(['/verif/bin/govc','dump','-ob',ob,fn],capture_output=True,text=True).stdout
parts=t.split(';;;; QUERY ')[1:]
for p in parts:
    n=p.split('\n')[0]
    q=p[p.index('(set-option'):p.index('(check-sat)')+11]
    open('/tmp/q%s.smt2'%n,'w').write(q)
    res=[]
    for s in (['z3','-smt2'],['z3-new','-smt2'],['cvc5','--lang=smt2']):
        import time
        t0=time.time()
        r=subprocess.run(['timeout',to]+s+['/tmp/q%s.smt2'%n],capture_output=True,text=True).stdout.split('\n')[0]
        res.append('%s=%s(%.1fs)'%(s[0],r or 'timeout',time.time()-t0))
    print(n,' '.join(res))
