#!/usr/bin/env python3
# Runs the repository's test-suite (guard OFF) and checks that every test in
# BASELINE.json stable_pass passes. usage: baseline_check.py [repo_dir]
import json, subprocess, sys, os
repo = sys.argv[1] if len(sys.argv) > 1 else '/repo'
base = json.load(open('/root/.vp/BASELINE.json'))
want = set(base['stable_pass'])
env = dict(os.environ, GOFLAGS='-mod=mod', GOPROXY='off', GOSUMDB='off', GOTOOLCHAIN='local')
p = subprocess.run(['go','test','-json','-vet=off','-count=1','-timeout','25m','./...'], cwd=repo, env=env, capture_output=True, text=True)
passed=set(); failed=set()
for line in p.stdout.splitlines():
    try: e=json.loads(line)
    except Exception: continue
    if e.get('Test') and e.get('Action') in ('pass','fail'):
        k=e['Package']+'::'+e['Test']
        (passed if e['Action']=='pass' else failed).add(k)
missing = sorted(want - passed)
print("stable_pass: %d, passed now: %d, missing: %d" % (len(want), len(want & passed), len(missing)))
for m in missing[:20]: print("  MISSING", m)
sys.exit(1 if missing else 0)
