#!/bin/bash
# Must-fail corpus: every seeded change (and /verif/selftest/*.diff) must make the check of its property fail.
# usage: selftest.sh [seed...]   (default: all)
cd /verif
seeds="$@"
[ -z "$seeds" ] && seeds=$(ls seeded)
pass=0; miss=0
for s in $seeds; do
  prop=$(echo $s | cut -d- -f1)
  out=$(tools/try_seeded.sh $s $prop 2>&1); rc=$?
  if [ $rc -eq 1 ]; then pass=$((pass+1)); echo "CAUGHT  $out" | cut -c1-220
  elif [ $rc -eq 3 ]; then echo "PATCH?  $s"; miss=$((miss+1))
  else miss=$((miss+1)); echo "MISSED  $out" | cut -c1-220; fi
done
echo "selftest: caught=$pass missed=$miss"
