#!/bin/bash
# Must-fail corpus: every seeded change (and /verif/selftest/*.diff) must make the check of its property fail.
# Seeds listed in selftest/EXPECTED_MISSES are outside what the contracts can claim (DESIGN App. B).
# usage: selftest.sh [seed...]   (default: all)
cd /verif
seeds="$@"
[ -z "$seeds" ] && seeds=$(ls seeded)
pass=0; miss=0; expected=0
for s in $seeds; do
  prop=$(echo $s | cut -d- -f1)
  out=$(tools/try_seeded.sh $s $prop 2>&1); rc=$?
  if [ $rc -eq 1 ]; then pass=$((pass+1)); echo "CAUGHT  $out" | cut -c1-220
  elif [ $rc -eq 3 ]; then echo "PATCH?  $s"; miss=$((miss+1))
  elif grep -qx "$s" selftest/EXPECTED_MISSES 2>/dev/null; then expected=$((expected+1)); echo "EXPECTED-MISS  $out" | cut -c1-220
  else miss=$((miss+1)); echo "MISSED  $out" | cut -c1-220; fi
done
echo "selftest: caught=$pass expected-misses=$expected missed=$miss"
