#!/bin/bash
# confirm_seed.sh <seed>  -- confirms a seeded change in a scratch worktree of /repo's HEAD:
#   1. demo passes WITHOUT the change, 2. project builds and the 236 baseline tests pass WITH it,
#   3. demo fails WITH it, 4. the property's quick check reports a VIOLATION WITH it.
# Writes /verif/seeded/<seed>/meta.json and removes the worktree.
set -u
seed=$1
prop=$(echo $seed | cut -d- -f1); n=${seed: -1}
dir=/verif/seeded/$seed
patch=$dir/patch.diff; [ -f $dir/patch.current.diff ] && patch=$dir/patch.current.diff
wt=/tmp/cw/$seed
export GOFLAGS=-mod=mod GOPROXY=off GOSUMDB=off GOTOOLCHAIN=local
rm -rf $wt; mkdir -p /tmp/cw; git -C /repo worktree add -q --detach $wt HEAD || exit 3
mkdir -p $wt/_out; cp -r $dir/demo $wt/_out/demo$n
run_demo() { (cd $wt && timeout 900 bash _out/demo$n/run.sh >/tmp/cw/$seed.demo.log 2>&1; echo $?); }
d0=$(run_demo)
(cd $wt && git apply --whitespace=nowarn $patch 2>/dev/null || patch -p1 -s --no-backup-if-mismatch < $patch) || { echo "PATCH-FAILED $seed"; git -C /repo worktree remove --force $wt; exit 3; }
build=$( (cd $wt && go build ./... >/dev/null 2>&1; echo $?) )
base=$(python3 /verif/tools/baseline_check.py $wt | head -1)
d1=$(run_demo)
chk=$(${GOVC:-/verif/bin/govc} check $prop --repo $wt --no-evidence 2>&1); crc=$?
viol=$(echo "$chk" | grep '^FAILED' | head -4 | sed 's/:.*//; s/^FAILED //' | tr '\n' ';')
git -C /repo worktree remove --force $wt
python3 - "$seed" "$prop" "$patch" "$d0" "$build" "$base" "$d1" "$crc" "$viol" <<'PY'
import json,sys,os
seed,prop,patch,d0,build,base,d1,crc,viol=sys.argv[1:]
dir='/verif/seeded/'+seed
agent={}
try: agent=json.load(open(dir+'/agent_meta.json'))
except Exception: pass
meta={"seed":seed,"property":prop,"patch":os.path.basename(patch),
 "summary":agent.get("summary",""),"needs_to_manifest":agent.get("needs",""),
 "confirmed_on":"scratch git worktree of /repo HEAD (with the fix: commits), removed afterwards",
 "demo_exit_without_change":int(d0),"build_exit_with_change":int(build),"baseline_with_change":base,
 "demo_exit_with_change":int(d1),"check_cmd":"${GOVC:-/verif/bin/govc} check %s --repo <worktree> --no-evidence"%prop,
 "check_exit_with_change":int(crc),"failed_obligations":[v for v in viol.split(';') if v],
 "confirmed": int(d0)==0 and int(build)==0 and 'missing: 0' in base and int(d1)!=0,
 "caught": int(crc)==1}
json.dump(meta,open(dir+'/meta.json','w'),indent=1)
print(seed,"confirmed" if meta["confirmed"] else "NOT-CONFIRMED","caught" if meta["caught"] else "MISSED","demo0=%s demo1=%s %s"%(d0,d1,base))
PY
