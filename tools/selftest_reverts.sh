#!/bin/bash
# Reverted-fix canaries: undoing a fix: commit must make the check of its property fail again.
cd /verif
ok=0; bad=0
for f in selftest/revert-*.diff; do
  prop=$(basename $f | cut -d- -f2)
  sc=$(mktemp -d /tmp/revtry.XXXXXX); rsync -a --exclude .git /repo/ $sc/
  if ! (cd $sc && patch -p1 -s --no-backup-if-mismatch < /verif/$f >/dev/null 2>&1); then echo "SKIP(conflict) $f"; rm -rf $sc; continue; fi
  out=$(${GOVC:-/verif/bin/govc} check $prop --repo $sc --no-evidence 2>&1); rc=$?
  rm -rf $sc
  if [ $rc -eq 1 ]; then ok=$((ok+1)); echo "CAUGHT $f :: $(echo "$out" | grep '^FAILED' | head -2 | cut -c1-120 | tr '\n' '|')"; else bad=$((bad+1)); echo "MISSED $f (exit $rc)"; fi
done
echo "reverted fixes: caught=$ok missed=$bad"
