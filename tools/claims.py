chk("C19","proof",
 "Zero-annotation safety obligations (index, slice, division) and termination measures on the functions of the generate pipeline that are under contract, discharged by SMT for all inputs; call sites are checked against callee preconditions. Proof is relative to the assumed contract on the regex printer's output and to the library models; functions not yet under contract are listed in the evidence.",
 "Assumes rassemble-go/regexp-syntax printer output shape where stated in the contract file; recursion Parse->parseFile->Parse on include cycles has no measure (not claimed).",
 "contract-based deductive verification: WP/symbolic-execution VCs over the typed Go AST, loop invariants + decreases, SMT (z3/cvc5)","DESIGN.md 3 C19")
