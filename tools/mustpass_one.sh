#!/bin/bash
# mustpass_one.sh <diff> : applies a behaviour-preserving diff to a scratch copy of /repo and runs
# every claimed obligation once (`govc check all`); prints QUIET or ALARM with the failing obligations.
f=$1
sc=$(mktemp -d /tmp/mptry.XXXXXX); rsync -a --exclude .git --exclude _out /repo/ $sc/
(cd $sc && patch -p1 -s --no-backup-if-mismatch < $f) || { echo "PATCH? $f"; rm -rf $sc; exit 3; }
(cd $sc && GOFLAGS=-mod=mod GOPROXY=off GOSUMDB=off GOTOOLCHAIN=local go build ./... ) || { echo "NOBUILD $f"; rm -rf $sc; exit 3; }
out=$(${GOVC:-/verif/bin/govc} check all --repo $sc --no-evidence 2>&1); rc=$?
rm -rf $sc
if [ $rc -eq 0 ]; then echo "QUIET  $f"; else echo "ALARM  $f :: $(echo "$out" | grep -E '^(FAILED|GENERATOR-ERROR)' | cut -c1-200 | tr '\n' '|')"; fi
exit $rc
