#!/bin/bash
# usage: try_seeded.sh <seed dir name> [props...]   -- applies the patch to a scratch copy of /repo and runs the checks there
set -u
seed=$1; shift
sc=$(mktemp -d /tmp/seedtry.XXXXXX)
rsync -a --exclude .git /repo/ $sc/
if ! (cd $sc && patch -p1 -s --no-backup-if-mismatch < $( [ -f /verif/seeded/$seed/patch.current.diff ] && echo /verif/seeded/$seed/patch.current.diff || echo /verif/seeded/$seed/patch.diff )); then echo "PATCH-FAILED $seed"; rm -rf $sc; exit 3; fi
props="$@"
[ -z "$props" ] && props=$(echo $seed | cut -d- -f1)
rc=0
for p in $props; do
  out=$(${GOVC:-/verif/bin/govc} check $p --repo $sc --no-evidence 2>&1); r=$?
  echo "$seed $p exit=$r :: $(echo "$out" | grep -c '^VIOLATION') violations; $(echo "$out" | grep '^FAILED' | head -3 | cut -c1-160 | tr '\n' '|')"
  [ $r -ne 0 ] && rc=1
done
rm -rf $sc
exit $rc
