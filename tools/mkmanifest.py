#!/usr/bin/env python3
# Regenerates /verif/MANIFEST.json from the table below (kept valid at all times).
import json, subprocess
props=[json.loads(l) for l in open('/verif/properties.jsonl')]
ids=[p['id'] for p in props]
commits=subprocess.run(['git','-C','/repo','log','--format=%H %s'],capture_output=True,text=True).stdout.splitlines()
hook_commits=[c.split()[0] for c in commits if c.split(' ',1)[1].startswith('verif:')]
TB="trusted: govc (home-made VC generator and its ghost models of strings.Builder/bytes.Buffer/bufio.Scanner/fmt), z3 4.8.12 / z3 5.1.0 / cvc5 1.0.3, go/types front end; spec functions total; no aliasing between parameters; assumed extern contracts and unmodelled calls are listed per run in the evidence file"
checks={}
def chk(pid, cat, text, note, technique, ref):
    checks[pid]={"property_id":pid,
      "quick_cmd":"/verif/bin/govc check %s --tier quick"%pid,
      "thorough_cmd":"/verif/bin/govc check %s --tier thorough"%pid,
      "evidence_file":"/verif/evidence/%s.json"%pid,
      "replay_cmd_template":"/verif/bin/govc replay {path}",
      "engine":"govc",
      "level_claimed":{"category":cat,"text":text,"design_ref":ref},
      "level_note":note+" "+TB,
      "technique":technique}
exec(open('/verif/tools/claims.py').read())
na={
 "C01":"deciding it needs language equality through rassemble-go/regexp-syntax (external modules); no contract within reach of a home-made WP generator expresses or decides that (DESIGN.md section 3, C01)",
}
exec(open('/verif/tools/na.py').read())
m={"version":1,
 "setup_cmd":"cd /verif/govc && GOFLAGS=-mod=vendor GOPROXY=off GOSUMDB=off GOTOOLCHAIN=local go build -o /verif/bin/govc .",
 "hooks":{"guard":"verif","enable":"go build/test -tags verif (adds zz_contracts_verif.go in package main and in each package directory, */zz_bounded_verif.go, regex/zz_escaped_verif.go: //@ contract comments, pure ghost spec/lemma functions and executable contract predicates only; all carry //go:build verif; no executable line of crs-toolchain depends on them)","baseline_off_cmd":"cd /repo && go test -mod=mod -json -vet=off -count=1 -timeout 25m ./...","source_commits":hook_commits,"add_only":True},
 "engines":[{"name":"govc","path":"/verif/govc","serves_properties":sorted(checks),"kind_free_text":"home-made verification-condition generator for Go (typed-AST symbolic execution, loop invariants, modular contracts, ghost lemmas by recursion) discharging obligations with z3 4.8.12 / z3 5.1.0 / cvc5 1.0.3; regular-language obligations compiled from the pattern literals in the source"}],
 "checks":[checks[i] for i in ids if i in checks],
 "not_applicable":[{"property_id":i,"reason":na.get(i,"check not built yet (work in progress; see DESIGN.md section 7)")} for i in ids if i not in checks],
 "notes":"Contract-based deductive verification with a home-made VC generator; see DESIGN.md. KNOWN_FINDINGS lists genuine defects (fixed or recorded)."}
json.dump(m,open('/verif/MANIFEST.json','w'),indent=1)
print("checks:",sorted(checks)," n/a:",[i for i in ids if i not in checks])
