package main

// Ghost models built into the generator (DESIGN 2.4 "what the extraction abstracts"):
// strings.Builder / bytes.Buffer / bufio.Writer content, bufio.Scanner protocol,
// fmt.Sprint*/Errorf, errors.New, os.Exit, readers.

import (
	"fmt"
	"go/ast"
	"go/types"
	"strconv"
	"strings"
)

func (fc *FnCtx) bufGet(st *State, b Val) Val {
	if v, ok := st.env[b.Rec]; ok {
		return v
	}
	return fc.initialVal(b.Rec, SStr, nil)
}

func (fc *FnCtx) bufSet(st *State, b Val, t string) {
	st.env[b.Rec] = Val{T: t, S: SStr}
}

const itoaDecl = `(declare-fun itoa (Int) Str)
(assert (forall ((n Int)) (! (and (wfstr (itoa n)) (>= (slen (itoa n)) 1)
   (forall ((i Int)) (! (=> (and (<= 0 i) (< i (slen (itoa n)))) (or (and (<= 48 (at (itoa n) i)) (<= (at (itoa n) i) 57)) (and (= i 0) (< n 0) (= (at (itoa n) i) 45)))) :pattern ((select (chars (itoa n)) i))))) :pattern ((itoa n)))))
(assert (forall ((n Int) (m Int)) (! (=> (= (itoa n) (itoa m)) (= n m)) :pattern ((itoa n) (itoa m)))))
`
const hexDecl = `(declare-fun hexs (Int) Str)
(assert (forall ((n Int)) (! (and (wfstr (hexs n)) (>= (slen (hexs n)) 1)
   (forall ((i Int)) (! (=> (and (<= 0 i) (< i (slen (hexs n)))) (or (and (<= 48 (at (hexs n) i)) (<= (at (hexs n) i) 57)) (and (<= 97 (at (hexs n) i)) (<= (at (hexs n) i) 102)) (and (= i 0) (< n 0) (= (at (hexs n) i) 45)))) :pattern ((select (chars (hexs n)) i))))) :pattern ((hexs n)))))
`

func (fc *FnCtx) toStr(st *State, v Val) (string, bool) {
	switch v.S {
	case SStr:
		return v.T, true
	case SInt:
		if v.GT != nil && isErrorType(v.GT) {
			return "", false
		}
		fc.w.needItoa = true
		return "(itoa " + v.T + ")", true
	case SBuf:
		return fc.bufGet(st, v).T, true
	}
	return "", false
}

// sprintf models the verbs %s %d %v %x %% on strings, ints; anything else: opaque string.
func (fc *FnCtx) sprintf(st *State, format string, args []Val) (Val, bool) {
	cur := Val{T: "emptystr", S: SStr}
	lit := ""
	flush := func() {
		if lit != "" {
			cur = fc.concat(st, cur, Val{T: smtStrLit(lit), S: SStr})
			lit = ""
		}
	}
	ai := 0
	for i := 0; i < len(format); i++ {
		c := format[i]
		if c != '%' {
			lit += string(c)
			continue
		}
		i++
		if i >= len(format) {
			return Val{}, false
		}
		switch format[i] {
		case '%':
			lit += "%"
		case 's', 'v', 'd':
			if ai >= len(args) {
				return Val{}, false
			}
			t, ok := fc.toStr(st, args[ai])
			if !ok {
				return Val{}, false
			}
			ai++
			flush()
			cur = fc.concat(st, cur, Val{T: t, S: SStr})
		case 'x':
			if ai >= len(args) || args[ai].S != SInt {
				return Val{}, false
			}
			fc.w.needHex = true
			flush()
			cur = fc.concat(st, cur, Val{T: "(hexs " + args[ai].T + ")", S: SStr})
			ai++
		default:
			return Val{}, false
		}
	}
	flush()
	return cur, true
}

func stringLit(e ast.Expr) (string, bool) {
	if bl, ok := e.(*ast.BasicLit); ok {
		if s, err := strconv.Unquote(bl.Value); err == nil {
			return s, true
		}
	}
	return "", false
}

func (fc *FnCtx) constString(e ast.Expr) (string, bool) {
	if tv, ok := fc.info().Types[e]; ok && tv.Value != nil {
		if v, ok := constVal(tv.Value, tv.Type); ok && v.S == SStr {
			// recover Go string from constant
			s := tv.Value.ExactString()
			if u, err := strconv.Unquote(s); err == nil {
				return u, true
			}
		}
	}
	return stringLit(e)
}

func (fc *FnCtx) newErr(st *State) Val {
	e := fc.freshVal(st, "err", SInt, nil)
	st.addAssume("(not (= " + e.T + " 0))")
	return e
}

// trModel handles library functions with a built-in ghost model.
func (fc *FnCtx) trModel(st *State, call *ast.CallExpr, fn *types.Func, recvExpr ast.Expr, full string) ([]Val, bool) {
	args := func() []Val {
		var vs []Val
		for _, a := range call.Args {
			vs = append(vs, fc.tr(st, a))
		}
		return vs
	}
	switch full {
	case "regexp.MustCompile", "regexp.Compile":
		vs := args()
		t := fc.typeOf(call)
		if tup, ok := t.(*types.Tuple); ok {
			t = tup.At(0).Type()
		}
		rv := fc.freshVal(st, "regex", SRec, t)
		st.fresh[rv.Rec] = true
		if vs[0].S == SStr {
			st.env[rv.Rec+".$pattern"] = vs[0]
		}
		if full == "regexp.Compile" {
			return []Val{rv, fc.freshVal(st, "reerr", SInt, nil)}, true
		}
		return []Val{rv}, true
	case "os.ReadFile":
		vs := args()
		c := fc.freshVal(st, "filedata", SStr, nil)
		e := fc.freshVal(st, "rerr", SInt, nil)
		if vs[0].S == SStr {
			// content is a function of the path and of the number of writes so far
			fc.w.needFsRead = true
			st.addAssume("(=> (= " + e.T + " 0) (= " + c.T + " (fsread " + vs[0].T + " " + fc.fsWrites(st).T + ")))")
		}
		st.env["ghost.lastRead"] = c
		return []Val{c, e}, true
	case "os.WriteFile":
		vs := args()
		before := fc.fsWrites(st)
		fc.noteWrite(st, &vs[0], &vs[1])
		e := fc.freshVal(st, "werr", SInt, nil)
		if vs[0].S == SStr && vs[1].S == SStr {
			// a successful write is what a later read of that path returns
			after := fc.fsWrites(st)
			st.addAssume("(=> (= " + e.T + " 0) (= (fsread " + vs[0].T + " " + after.T + ") " + vs[1].T + "))")
			_ = before
		}
		return []Val{e}, true
	case "os.Exit":
		args()
		st.env["$outcome"] = Val{T: "exit", S: SOpaque}
		return nil, true
	case "errors.New", "fmt.Errorf":
		args()
		return []Val{fc.newErr(st)}, true
	case "strconv.Itoa":
		vs := args()
		fc.w.needItoa = true
		return []Val{{T: "(itoa " + vs[0].T + ")", S: SStr}}, true
	case "strconv.FormatInt":
		// base 10 and base 16 with a constant base: the same digit strings as %d / %x
		vs := args()
		if len(vs) == 2 {
			switch vs[1].T {
			case "10":
				fc.w.needItoa = true
				return []Val{{T: "(itoa " + vs[0].T + ")", S: SStr}}, true
			case "16":
				fc.w.needHex = true
				return []Val{{T: "(hexs " + vs[0].T + ")", S: SStr}}, true
			}
		}
		return nil, false
	case "fmt.Sprintf":
		vs := args()
		if f, ok := fc.constString(call.Args[0]); ok {
			if v, ok := fc.sprintf(st, f, vs[1:]); ok {
				return []Val{v}, true
			}
		}
		fc.unmodelled["fmt.Sprintf "+exprString(call.Args[0])] = true
		return []Val{fc.freshVal(st, "sprintf", SStr, nil)}, true
	case "fmt.Sprint":
		vs := args()
		cur := Val{T: "emptystr", S: SStr}
		for i, v := range vs {
			t, ok := fc.toStr(st, v)
			if !ok {
				fc.unmodelled["fmt.Sprint operand"] = true
				return []Val{fc.freshVal(st, "sprint", SStr, nil)}, true
			}
			if i > 0 && v.S != SStr && vs[i-1].S != SStr {
				cur = fc.concat(st, cur, Val{T: smtStrLit(" "), S: SStr})
			}
			cur = fc.concat(st, cur, Val{T: t, S: SStr})
		}
		return []Val{cur}, true
	case "fmt.Println", "fmt.Printf", "fmt.Print":
		args()
		return fc.freshResults(st, call, "print"), true
	case "strings.NewReader", "bytes.NewReader", "bytes.NewBufferString", "bytes.NewBuffer":
		vs := args()
		b := fc.freshVal(st, "rd", SBuf, nil)
		fc.bufSet(st, b, vs[0].T)
		return []Val{b}, true
	case "bufio.NewReader", "bufio.NewWriter":
		vs := args()
		if vs[0].S == SBuf {
			return []Val{vs[0]}, true // alias: writes go straight to the underlying buffer
		}
		return []Val{fc.freshVal(st, "rw", SBuf, nil)}, true
	case "bufio.NewScanner":
		vs := args()
		sc := fc.freshVal(st, "scan", SScan, nil)
		lines := fc.freshVal(st, "lines", SSL, nil)
		st.env[sc.Rec+".lines"] = lines
		st.env[sc.Rec+".pos"] = intVal("0")
		st.env[sc.Rec+".failed"] = boolVal("false")
		st.env[sc.Rec+".cur"] = Val{T: "emptystr", S: SStr}
		if vs[0].S == SBuf {
			src := fc.bufGet(st, vs[0])
			st.env[sc.Rec+".src"] = src
			// link to the spec function of line splitting when it is declared
			if sf := fc.w.specByName["utils.OpaqueScanLines"]; sf != nil {
				fc.w.useSpec(sf)
				st.addAssume("(= " + lines.T + " (" + sf.smtName + " " + src.T + "))")
			}
		}
		// bufio.ScanLines never yields a line that contains a newline
		st.addAssume("(forall ((i Int)) (! (nonl (sat_ " + lines.T + " i)) :pattern ((sat_ " + lines.T + " i))))")
		st.scans = append(st.scans, sc.Rec)
		return []Val{sc}, true
	}
	if recvExpr == nil {
		return nil, false
	}
	sig := fn.Type().(*types.Signature)
	rt := sig.Recv().Type()
	switch {
	case isBufType(rt):
		b := fc.tr(st, recvExpr)
		if b.S != SBuf {
			return nil, false
		}
		cur := fc.bufGet(st, b)
		switch fn.Name() {
		case "WriteString", "Write":
			vs := args()
			fc.bufSet(st, b, fc.concat(st, cur, vs[0]).T)
			return []Val{intVal("(slen " + vs[0].T + ")"), intVal("0")}, true
		case "WriteByte":
			vs := args()
			fc.bufSet(st, b, "(appendbyte "+cur.T+" "+vs[0].T+")")
			return []Val{intVal("0")}, true
		case "WriteRune":
			vs := args()
			if n, err := strconv.Atoi(vs[0].T); err == nil && n >= 0 && n < 128 {
				fc.bufSet(st, b, "(appendbyte "+cur.T+" "+vs[0].T+")")
				return []Val{intVal("1"), intVal("0")}, true
			}
			// exact for ASCII; otherwise 2..4 bytes >= 128
			r := fc.freshVal(st, "wr", SStr, nil)
			st.addAssume("(=> (and (<= 0 " + vs[0].T + ") (< " + vs[0].T + " 128)) (= " + r.T + " (appendbyte " + cur.T + " " + vs[0].T + ")))")
			st.addAssume("(=> (not (and (<= 0 " + vs[0].T + ") (< " + vs[0].T + " 128))) (and (> (slen " + r.T + ") (slen " + cur.T + ")) (forall ((i Int)) (=> (and (<= 0 i) (< i (slen " + cur.T + "))) (= (at " + r.T + " i) (at " + cur.T + " i))))))")
			fc.bufSet(st, b, r.T)
			return []Val{intVal("1"), intVal("0")}, true
		case "String", "Bytes":
			return []Val{{T: cur.T, S: SStr}}, true
		case "Len":
			return []Val{intVal("(slen " + cur.T + ")")}, true
		case "Reset":
			fc.bufSet(st, b, "emptystr")
			return nil, true
		case "Grow":
			args()
			return nil, true
		case "Flush":
			return []Val{intVal("0")}, true
		case "UnreadByte":
			// fails unless the last operation was a successful read; after the buffer has been
			// drained (WriteTo) it always fails. Modelled: empty content => error.
			e := fc.freshVal(st, "unreaderr", SInt, nil)
			st.addAssume("(=> (= (slen " + cur.T + ") 0) (not (= " + e.T + " 0)))")
			return []Val{e}, true
		case "ReadByte":
			e := fc.freshVal(st, "readerr", SInt, nil)
			bv := fc.freshVal(st, "readbyte", SInt, types.Typ[types.Uint8])
			st.addAssume("(=> (= (slen " + cur.T + ") 0) (not (= " + e.T + " 0)))")
			return []Val{bv, e}, true
		case "WriteTo":
			vs := args()
			if vs[0].S == SBuf {
				dst := fc.bufGet(st, vs[0])
				fc.bufSet(st, vs[0], fc.concat(st, dst, cur).T)
				fc.bufSet(st, b, "emptystr")
				return []Val{intVal("(slen " + cur.T + ")"), intVal("0")}, true
			}
		}
		return nil, false
	case isNamed(rt, "bufio", "Scanner"):
		sc := fc.tr(st, recvExpr)
		if sc.S != SScan {
			return nil, false
		}
		get := func(f string, t types.Type) Val { return fc.readKey(st, sc.Rec+"."+f, t) }
		switch fn.Name() {
		case "Split":
			return nil, true
		case "Buffer":
			args()
			return nil, true
		case "Scan":
			lines := get("lines", types.NewSlice(types.Typ[types.String]))
			pos := get("pos", types.Typ[types.Int])
			failed := get("failed", types.Typ[types.Bool])
			cur := get("cur", types.Typ[types.String])
			b := fc.declare("scan_ok", SBool)
			f2 := fc.declare("scan_failed", SBool)
			st.addAssume("(=> " + b + " (and (< " + pos.T + " (sllen " + lines.T + ")) (not " + failed.T + ")))")
			st.addAssume("(=> (not " + b + ") (or " + f2 + " (= " + pos.T + " (sllen " + lines.T + "))))")
			nf := fc.declare("scan_failed_now", SBool)
			st.addAssume("(= " + nf + " (ite " + b + " " + failed.T + " (or " + failed.T + " " + f2 + ")))")
			st.env[sc.Rec+".failed"] = boolVal(nf)
			ncur := fc.freshVal(st, "scan_text", SStr, nil)
			st.addAssume("(=> " + b + " (= " + ncur.T + " (sat_ " + lines.T + " " + pos.T + ")))")
			st.addAssume("(=> (not " + b + ") (= " + ncur.T + " " + cur.T + "))")
			st.env[sc.Rec+".cur"] = ncur
			npos := fc.declare("scan_pos", SInt)
			st.addAssume("(=> " + b + " (= " + npos + " (+ " + pos.T + " 1)))")
			st.addAssume("(=> (not " + b + ") (= " + npos + " " + pos.T + "))")
			st.env[sc.Rec+".pos"] = intVal(npos)
			return []Val{boolVal(b)}, true
		case "Text", "Bytes":
			return []Val{get("cur", types.Typ[types.String])}, true
		case "Err":
			failed := get("failed", types.Typ[types.Bool])
			e := fc.freshVal(st, "scanerr", SInt, nil)
			st.addAssume("(= (not (= " + e.T + " 0)) " + failed.T + ")")
			return []Val{e}, true
		}
	}
	return nil, false
}

var _ = fmt.Sprintf
var _ = strings.TrimSpace

// ghost file-system write counter (DESIGN 2.4)
func (fc *FnCtx) fsWrites(st *State) Val {
	return fc.readKey(st, "ghost.fsWrites", types.Typ[types.Int])
}

func (fc *FnCtx) noteWrite(st *State, path, data *Val) {
	n := fc.fsWrites(st)
	st.env["ghost.fsWrites"] = Val{T: "(+ " + n.T + " 1)", S: SInt, GT: types.Typ[types.Int]}
	if path != nil && path.S == SStr {
		st.env["ghost.lastWritePath"] = *path
	} else {
		st.env["ghost.lastWritePath"] = fc.freshVal(st, "wpath", SStr, nil)
	}
	if data != nil && data.S == SStr {
		st.env["ghost.lastWriteData"] = *data
	} else {
		st.env["ghost.lastWriteData"] = fc.freshVal(st, "wdata", SStr, nil)
	}
}

func (fc *FnCtx) havocWrites(st *State) {
	n := fc.fsWrites(st)
	nv := fc.freshVal(st, "fsw", SInt, types.Typ[types.Int])
	st.addAssume("(>= " + nv.T + " " + n.T + ")")
	st.env["ghost.fsWrites"] = nv
	st.env["ghost.lastWritePath"] = fc.freshVal(st, "wpath", SStr, nil)
	st.env["ghost.lastWriteData"] = fc.freshVal(st, "wdata", SStr, nil)
}
