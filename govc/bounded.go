package main

// Bounded stand-ins (DESIGN 2.10): an executable contract (a Go predicate in the
// verif file, `func BoundedX(in string) string`, "" = holds) is evaluated on the real
// code for EVERY input of a stated finite domain: all sequences of at most N tokens
// over a token alphabet. Reported under `bounded`, never counted as proved.
//
//   //@ bounded[C13] BoundedRenumber quick=4 thorough=6 tokens="a" "test_id:" " " "\n"
//
// The generated driver is injected with `go test -overlay` (nothing is written to /repo).

import (
	"encoding/json"
	"fmt"
	"os"
	"os/exec"
	"path/filepath"
	"regexp"
	"strconv"
	"strings"
	"sync"
	"time"
)

type BoundedSpec struct {
	Pkg      string
	Func     string
	Tags     []string
	Quick    int
	Thorough int
	Tokens   []string
	Args     string
}

func init() {
	directiveHandlers["bounded"] = dirBounded
}

var tokenRe = regexp.MustCompile(`"(?:[^"\\]|\\.)*"`)

func parseBounded(d *Directive) (*BoundedSpec, error) {
	f := strings.Fields(d.Args)
	if len(f) < 1 {
		return nil, fmt.Errorf("bounded needs a predicate name")
	}
	bs := &BoundedSpec{Pkg: d.Pkg, Func: f[0], Tags: d.Tags, Quick: 3, Thorough: 5, Args: d.Args}
	rest := strings.TrimSpace(strings.TrimPrefix(d.Args, f[0]))
	if i := strings.Index(rest, "tokens="); i >= 0 {
		for _, q := range tokenRe.FindAllString(rest[i+7:], -1) {
			s, err := strconv.Unquote(q)
			if err != nil {
				return nil, fmt.Errorf("bad token %s", q)
			}
			bs.Tokens = append(bs.Tokens, s)
		}
		rest = rest[:i]
	}
	for _, kv := range strings.Fields(rest) {
		if strings.HasPrefix(kv, "quick=") {
			bs.Quick, _ = strconv.Atoi(kv[6:])
		}
		if strings.HasPrefix(kv, "thorough=") {
			bs.Thorough, _ = strconv.Atoi(kv[9:])
		}
	}
	if len(bs.Tokens) == 0 {
		return nil, fmt.Errorf("bounded %s: no tokens", bs.Func)
	}
	return bs, nil
}

type boundedResult struct {
	Cases int
	Fail  string
	Msg   string
	Err   string
}

type boundedBatch struct {
	once    sync.Once
	results map[string]boundedResult
	err     string
	wall    time.Duration
}

var boundedBatches = map[string]*boundedBatch{}
var boundedMu sync.Mutex

// dirBounded creates the obligation; the Go test for all predicates of the package that
// are selected in this run is executed once (lazily, on first use).
func dirBounded(r *Run, d *Directive) []*Obligation {
	bs, err := parseBounded(d)
	if err != nil {
		return dirFail(d, "bounded", err.Error())
	}
	name := fmt.Sprintf("%s.bounded/%s", pkgShort(d.Pkg), bs.Func)
	ob := &Obligation{Name: name, Func: pkgShort(d.Pkg) + "." + bs.Func, Kind: "bounded", Tags: d.Tags, Bounded: true,
		Descr: "executable contract evaluated on the real code for every input of the domain"}
	r.bounded = append(r.bounded, bs)
	ob.Run = func(ob *Obligation, timeout time.Duration) {
		n := bs.Quick
		if r.tier == "thorough" {
			n = bs.Thorough
		}
		ob.Domain = fmt.Sprintf("all sequences of at most %d tokens over %q", n, bs.Tokens)
		res := r.runBoundedPkg(bs.Pkg, n >= 0)
		br, ok := res.results[bs.Func]
		ob.Solver = "go test (exhaustive enumeration)"
		ob.Ms = res.wall.Milliseconds()
		if res.err != "" && !ok {
			ob.Status = "failed"
			ob.FailStatus = "error"
			ob.Detail = "bounded driver failed: " + res.err
			return
		}
		if !ok {
			ob.Status = "failed"
			ob.FailStatus = "error"
			ob.Detail = "bounded driver produced no result for " + bs.Func + "\n" + res.err
			return
		}
		ob.Cases = br.Cases
		if br.Err != "" {
			ob.Status = "failed"
			ob.FailStatus = "panic"
			ob.Detail = br.Err
			ob.Witness = br.Fail
			return
		}
		if br.Fail != "" || br.Msg != "" {
			ob.Status = "failed"
			ob.FailStatus = "counterexample"
			ob.Witness = br.Fail
			ob.WitnessNote = "input (token string) on which the executable contract fails on the real code: " + br.Msg
			ob.Detail = fmt.Sprintf("fails for input %q: %s", br.Fail, br.Msg)
			ob.ReplayPkg = bs.Pkg
			return
		}
		ob.Status = "discharged"
	}
	return []*Obligation{ob}
}

func (r *Run) runBoundedPkg(pkgPath string, _ bool) *boundedBatch {
	boundedMu.Lock()
	b := boundedBatches[pkgPath]
	if b == nil {
		b = &boundedBatch{results: map[string]boundedResult{}}
		boundedBatches[pkgPath] = b
	}
	boundedMu.Unlock()
	b.once.Do(func() {
		start := time.Now()
		defer func() { b.wall = time.Since(start) }()
		var specs []*BoundedSpec
		for _, bs := range r.bounded {
			if bs.Pkg == pkgPath && (r.prop == "all" || hasTag(bs.Tags, r.prop)) {
				specs = append(specs, bs)
			}
		}
		p := r.w.pkgByPath[pkgPath]
		if p == nil || len(p.GoFiles) == 0 {
			b.err = "package not loaded"
			return
		}
		dir := filepath.Dir(p.GoFiles[0])
		var src strings.Builder
		fmt.Fprintf(&src, "//go:build verif\n\npackage %s\n\nimport (\n\t\"fmt\"\n\t\"testing\"\n)\n\n", p.Name)
		src.WriteString(`func zzEnumerate(tokens []string, max int, f func(string) bool) int {
	n := 0
	var rec func(prefix string, depth int) bool
	rec = func(prefix string, depth int) bool {
		n++
		if !f(prefix) {
			return false
		}
		if depth == max {
			return true
		}
		for _, t := range tokens {
			if !rec(prefix+t, depth+1) {
				return false
			}
		}
		return true
	}
	rec("", 0)
	return n
}

func zzRun(name string, tokens []string, max int, pred func(string) string) {
	fail, msg, perr := "", "", ""
	failed := false
	n := zzEnumerate(tokens, max, func(in string) (ok bool) {
		defer func() {
			if r := recover(); r != nil {
				failed = true
				fail = in
				perr = fmt.Sprint(r)
				ok = false
			}
		}()
		if m := pred(in); m != "" {
			failed = true
			fail, msg = in, m
			return false
		}
		return true
	})
	_ = failed
	fmt.Printf("ZZBOUNDED %s cases=%d fail=%q msg=%q panic=%q\n", name, n, fail, msg, perr)
}

`)
		src.WriteString("func TestZZBounded(t *testing.T) {\n")
		for _, bs := range specs {
			n := bs.Quick
			if r.tier == "thorough" {
				n = bs.Thorough
			}
			fmt.Fprintf(&src, "\tzzRun(%q, %#v, %d, %s)\n", bs.Func, bs.Tokens, n, bs.Func)
		}
		src.WriteString("}\n")
		tmp := filepath.Join(scratch(), "bounded_"+sanitize(pkgShort(pkgPath)))
		os.MkdirAll(tmp, 0o755)
		testFile := filepath.Join(tmp, "zz_bounded_verif_test.go")
		os.WriteFile(testFile, []byte(src.String()), 0o644)
		ov := map[string]map[string]string{"Replace": {filepath.Join(dir, "zz_bounded_verif_test.go"): testFile}}
		ovb, _ := json.Marshal(ov)
		ovFile := filepath.Join(tmp, "overlay.json")
		os.WriteFile(ovFile, ovb, 0o644)
		to := 300 * time.Second
		if r.tier == "thorough" {
			to = 1500 * time.Second
		}
		cmd := exec.Command("go", "test", "-tags", "verif", "-overlay", ovFile, "-vet=off", "-count=1", "-timeout", fmt.Sprintf("%ds", int(to.Seconds())), "-v", "-run", "^TestZZBounded$", ".")
		cmd.Dir = dir
		// temporary files of the predicates live (and die) with the scratch directory
		tmpd := filepath.Join(tmp, "tmp")
		os.MkdirAll(tmpd, 0o755)
		cmd.Env = append(os.Environ(), "GOFLAGS=-mod=mod", "GOPROXY=off", "GOSUMDB=off", "GOTOOLCHAIN=local", "TMPDIR="+tmpd)
		out, err := cmd.CombinedOutput()
		re := regexp.MustCompile(`(?m)^ZZBOUNDED (\S+) cases=(\d+) fail=("(?:[^"\\]|\\.)*") msg=("(?:[^"\\]|\\.)*") panic=("(?:[^"\\]|\\.)*")$`)
		for _, m := range re.FindAllStringSubmatch(string(out), -1) {
			var br boundedResult
			br.Cases, _ = strconv.Atoi(m[2])
			br.Fail, _ = strconv.Unquote(m[3])
			br.Msg, _ = strconv.Unquote(m[4])
			br.Err, _ = strconv.Unquote(m[5])
			if br.Err != "" {
				br.Err = "panic on the real code: " + br.Err
			}
			b.results[m[1]] = br
		}
		if err != nil || len(b.results) < len(specs) {
			o := string(out)
			if len(o) > 3000 {
				o = o[len(o)-3000:]
			}
			b.err = fmt.Sprintf("go test: %v\n%s", err, o)
		}
	})
	return b
}
