package main

// Expression translation: Go expression (program or contract clause) -> SMT term.

import (
	"fmt"
	"go/ast"
	"go/constant"
	"go/token"
	"go/types"
	"strconv"
	"strings"
)

func (fc *FnCtx) info() *types.Info { return fc.pkg.TypesInfo }

func (fc *FnCtx) typeOf(e ast.Expr) types.Type {
	if fc.scope != nil {
		return nil
	}
	if tv, ok := fc.info().Types[e]; ok {
		return tv.Type
	}
	if id, ok := e.(*ast.Ident); ok {
		if o := fc.info().ObjectOf(id); o != nil {
			return o.Type()
		}
	}
	return nil
}

func boolVal(t string) Val { return Val{T: t, S: SBool} }
func intVal(t string) Val  { return Val{T: t, S: SInt} }

// tr translates an expression in state st. Obligations (index, slice, ...) are
// emitted for program expressions only.
func (fc *FnCtx) tr(st *State, e ast.Expr) Val {
	// a constant expression of the program (named constant, local const, "a" + sep ...): its value
	if fc.scope == nil && fc.specMode == nil {
		switch e.(type) {
		case *ast.Ident, *ast.BinaryExpr, *ast.SelectorExpr:
			if info := fc.info(); info != nil {
				if tv, ok := info.Types[e]; ok && tv.Value != nil {
					if v, ok := constVal(tv.Value, tv.Type); ok {
						return v
					}
				}
			}
		}
	}
	switch x := e.(type) {
	case *ast.ParenExpr:
		return fc.tr(st, x.X)
	case *ast.BasicLit:
		return fc.trLit(x)
	case *ast.Ident:
		return fc.trIdent(st, x)
	case *ast.UnaryExpr:
		return fc.trUnary(st, x)
	case *ast.BinaryExpr:
		return fc.trBinary(st, x)
	case *ast.IndexExpr:
		return fc.trIndex(st, x)
	case *ast.SliceExpr:
		return fc.trSlice(st, x)
	case *ast.SelectorExpr:
		return fc.trSelector(st, x)
	case *ast.CallExpr:
		rs := fc.trCall(st, x)
		if len(rs) == 0 {
			return Val{S: SOpaque, T: "0"}
		}
		return rs[0]
	case *ast.CompositeLit:
		return fc.trComposite(st, x)
	case *ast.StarExpr:
		if k, et, ok := fc.derefKey(x); ok {
			return fc.readKey(st, k, et)
		}
		return fc.tr(st, x.X)
	case *ast.FuncLit:
		return Val{S: SOpaque, T: "0", GT: fc.typeOf(x)}
	case *ast.TypeAssertExpr:
		v := fc.tr(st, x.X)
		return v
	}
	fc.errorf("%s: unsupported expression %T", fc.posOf(e), e)
	return fc.freshVal(st, "unsupported", SOpaque, nil)
}

func (fc *FnCtx) posOf(e ast.Node) string {
	if fc.scope != nil || e == nil || !e.Pos().IsValid() {
		return "<contract>"
	}
	return fc.pos(e)
}

func (fc *FnCtx) trLit(x *ast.BasicLit) Val {
	switch x.Kind {
	case token.INT:
		n, err := strconv.ParseInt(x.Value, 0, 64)
		if err != nil {
			fc.errorf("bad int literal %s", x.Value)
		}
		return intVal(smtInt(n))
	case token.CHAR:
		r, _, _, err := strconv.UnquoteChar(x.Value[1:len(x.Value)-1], '\'')
		if err != nil {
			fc.errorf("bad char literal %s", x.Value)
		}
		return intVal(smtInt(int64(r)))
	case token.STRING:
		s, err := strconv.Unquote(x.Value)
		if err != nil {
			fc.errorf("bad string literal %s", x.Value)
		}
		return Val{T: smtStrLit(s), S: SStr}
	}
	fc.errorf("unsupported literal %s", x.Value)
	return Val{S: SOpaque, T: "0"}
}

func constVal(c constant.Value, t types.Type) (Val, bool) {
	switch c.Kind() {
	case constant.Int:
		if n, ok := constant.Int64Val(c); ok {
			return Val{T: smtInt(n), S: SInt, GT: t}, true
		}
		return Val{T: c.ExactString(), S: SInt, GT: t}, true
	case constant.Bool:
		if constant.BoolVal(c) {
			return boolVal("true"), true
		}
		return boolVal("false"), true
	case constant.String:
		return Val{T: smtStrLit(constant.StringVal(c)), S: SStr, GT: t}, true
	}
	return Val{}, false
}

func (fc *FnCtx) trIdent(st *State, id *ast.Ident) Val {
	switch id.Name {
	case "true":
		return boolVal("true")
	case "false":
		return boolVal("false")
	case "nil":
		return Val{S: SNil, T: "0"}
	case "_":
		return Val{S: SOpaque, T: "0"}
	}
	var obj types.Object
	if fc.scope != nil {
		if v, ok := fc.scope.lookupVal(id.Name); ok {
			return v
		}
		if strings.HasPrefix(id.Name, "rangeIndex") {
			if v, ok := st.env[id.Name]; ok {
				return v
			}
		}
		if o, ok := fc.scope.lookupObj(id.Name); ok {
			obj = o
		} else if p := fc.scope.thePkg(); p != nil {
			obj = p.Types.Scope().Lookup(id.Name)
		}
		if obj == nil {
			fc.errorf("contract: unresolved identifier %q", id.Name)
			return Val{S: SOpaque, T: "0"}
		}
	} else {
		obj = fc.info().ObjectOf(id)
		if obj == nil {
			fc.errorf("%s: unresolved identifier %q", fc.pos(id), id.Name)
			return Val{S: SOpaque, T: "0"}
		}
	}
	return fc.objVal(st, obj)
}

func (fc *FnCtx) objVal(st *State, obj types.Object) Val {
	switch o := obj.(type) {
	case *types.Const:
		if v, ok := constVal(o.Val(), o.Type()); ok {
			return v
		}
	case *types.Var:
		v := fc.readKey(st, objKey(o), o.Type())
		if v.S == SInt && fc.w.sentinelErrors()[objKey(o)] {
			// a package-level `var ErrX = errors.New(...)` that nothing ever assigns: never nil
			st.assume = append(st.assume, "(not (= "+v.T+" 0))")
		}
		return v
	case *types.Nil:
		return Val{S: SNil, T: "0"}
	case *types.Func:
		return Val{S: SOpaque, T: "0", GT: o.Type()}
	}
	fc.errorf("unsupported object %v", obj)
	return Val{S: SOpaque, T: "0"}
}

func (fc *FnCtx) trUnary(st *State, x *ast.UnaryExpr) Val {
	switch x.Op {
	case token.NOT:
		v := fc.tr(st, x.X)
		return boolVal(not(v.T))
	case token.SUB:
		v := fc.tr(st, x.X)
		return Val{T: "(- " + v.T + ")", S: SInt, GT: v.GT}
	case token.ADD:
		return fc.tr(st, x.X)
	case token.AND:
		return fc.tr(st, x.X) // &T{...}: record reference
	}
	fc.errorf("%s: unsupported unary %s", fc.posOf(x), x.Op)
	return Val{S: SOpaque, T: "0"}
}

func isNilVal(v Val) bool { return v.S == SNil }

func (fc *FnCtx) trBinary(st *State, x *ast.BinaryExpr) Val {
	switch x.Op {
	case token.LAND, token.LOR:
		a := fc.tr(st, x.X)
		if fc.scope != nil {
			// contract clauses: a statically false guard (e.g. called(f) on a path where f was
			// not called) short-circuits, the other operand is not translated
			if x.Op == token.LAND && a.T == "false" {
				return boolVal("false")
			}
			if x.Op == token.LOR && a.T == "true" {
				return boolVal("true")
			}
		}
		g := a.T
		if x.Op == token.LOR {
			g = not(a.T)
		}
		st.guard = append(st.guard, g)
		b := fc.tr(st, x.Y)
		st.guard = st.guard[:len(st.guard)-1]
		if x.Op == token.LAND {
			return boolVal(and(a.T, b.T))
		}
		return boolVal("(or " + a.T + " " + b.T + ")")
	}
	a := fc.tr(st, x.X)
	b := fc.tr(st, x.Y)
	if (a.S == SOpaque || b.S == SOpaque) && x.Op != token.EQL && x.Op != token.NEQ {
		// floating point and other unmodelled operands: the result is unknown
		switch x.Op {
		case token.LSS, token.LEQ, token.GTR, token.GEQ:
			return boolVal(fc.declare("opaquecmp", SBool))
		}
		t := fc.typeOf(x)
		return fc.freshVal(st, "opaqueop", sortOf(t), t)
	}
	switch x.Op {
	case token.EQL, token.NEQ:
		var t string
		switch {
		case isNilVal(a) || isNilVal(b):
			o := a
			if isNilVal(a) {
				o = b
			}
			t = fc.isNilTerm(st, o)
		case a.S == SRec || b.S == SRec || a.S == SOpaque || b.S == SOpaque || a.S == SMap || a.S == SBuf:
			// identity of references: equal iff same record name, otherwise unknown
			if a.Rec != "" && a.Rec == b.Rec {
				t = "true"
			} else {
				t = fc.declare("refeq", SBool)
			}
		default:
			t = "(= " + a.T + " " + b.T + ")"
		}
		if x.Op == token.NEQ {
			t = not(t)
		}
		return boolVal(t)
	case token.LSS, token.LEQ, token.GTR, token.GEQ:
		if a.S == SStr {
			fc.errorf("%s: string ordering not modelled", fc.posOf(x))
			return boolVal(fc.declare("strcmp", SBool))
		}
		op := map[token.Token]string{token.LSS: "<", token.LEQ: "<=", token.GTR: ">", token.GEQ: ">="}[x.Op]
		return boolVal("(" + op + " " + a.T + " " + b.T + ")")
	case token.ADD:
		if a.S == SStr {
			return fc.concat(st, a, b)
		}
		return fc.arith(st, x, "(+ "+a.T+" "+b.T+")", a, b)
	case token.SUB:
		return fc.arith(st, x, "(- "+a.T+" "+b.T+")", a, b)
	case token.MUL:
		return fc.arith(st, x, "(* "+a.T+" "+b.T+")", a, b)
	case token.QUO:
		fc.divOblig(st, x, b)
		return fc.arith(st, x, "(godiv "+a.T+" "+b.T+")", a, b)
	case token.REM:
		fc.divOblig(st, x, b)
		return fc.arith(st, x, "(gomod "+a.T+" "+b.T+")", a, b)
	}
	fc.errorf("%s: unsupported binary %s", fc.posOf(x), x.Op)
	return Val{S: SOpaque, T: "0"}
}

func (fc *FnCtx) isNilTerm(st *State, o Val) string {
	switch o.S {
	case SInt: // error
		return "(= " + o.T + " 0)"
	case SSL:
		return "(= (sllen " + o.T + ") 0)" // nil slice ~ empty (len test); see note in DESIGN
	case SStr:
		return "(= (slen " + o.T + ") 0)"
	case SIL:
		return "(= (illen " + o.T + ") 0)"
	case SLL:
		return "(= " + o.Rec + " 0)"
	case SRec, SMap, SBuf, SScan:
		if o.Rec != "" {
			k := o.Rec + ".$nil"
			if v, ok := st.env[k]; ok {
				return v.T
			}
			if st.fresh[o.Rec] {
				return "false"
			}
			return fc.initialVal(k, SBool, nil).T
		}
	case SNil:
		return "true"
	}
	return fc.declare("isnil", SBool)
}

func (fc *FnCtx) divOblig(st *State, x ast.Node, b Val) {
	if !fc.safetyOn() {
		return
	}
	ord := fc.siteOrdinal("div", x)
	fc.oblige(st, fmt.Sprintf("div#%d", ord), "div", fc.contract.safetyTags(), "(not (= "+b.T+" 0))", "division by zero", x)
}

// arith wraps results of fixed-width unsigned arithmetic (uint8) as Go does.
func (fc *FnCtx) arith(st *State, x ast.Expr, t string, a, b Val) Val {
	gt := a.GT
	if gt == nil {
		gt = b.GT
	}
	if ty := fc.typeOf(x); ty != nil {
		gt = ty
	}
	if gt != nil {
		if bt, ok := gt.Underlying().(*types.Basic); ok && bt.Kind() == types.Uint8 {
			t = "(mod " + t + " 256)"
		}
	}
	return Val{T: t, S: SInt, GT: gt}
}

func (fc *FnCtx) concat(st *State, a, b Val) Val {
	if a.T == "emptystr" {
		return b
	}
	if b.T == "emptystr" {
		return a
	}
	// a one-byte literal on the right: same term as a builder's WriteByte/WriteRune
	if strings.HasPrefix(b.T, "(appendbyte emptystr ") && strings.HasSuffix(b.T, ")") {
		// x + byteStr(c)  ==  appendbyte(x, c)
		return Val{T: "(appendbyte " + a.T + " " + b.T[len("(appendbyte emptystr "):len(b.T)-1] + ")", S: SStr}
	}
	if strings.HasPrefix(b.T, "lit_") && len(b.T) == 6 {
		if bs := litBytes(b.T); len(bs) == 1 {
			return Val{T: fmt.Sprintf("(appendbyte %s %d)", a.T, bs[0]), S: SStr}
		}
	}
	return Val{T: "(scat " + a.T + " " + b.T + ")", S: SStr}
}


// derefKey: *p where p is a variable (parameter, receiver, local) of type pointer to a scalar
// or string type: the key of the pointee cell.
func (fc *FnCtx) derefKey(x *ast.StarExpr) (string, types.Type, bool) {
	id, ok := x.X.(*ast.Ident)
	if !ok {
		return "", nil, false
	}
	var obj types.Object
	if fc.scope != nil {
		if o, ok := fc.scope.lookupObj(id.Name); ok {
			obj = o
		}
	} else if info := fc.info(); info != nil {
		obj = info.ObjectOf(id)
	}
	if obj == nil {
		return "", nil, false
	}
	pt, ok := obj.Type().Underlying().(*types.Pointer)
	if !ok {
		return "", nil, false
	}
	switch sortOf(pt.Elem()) {
	case SInt, SBool, SStr:
		return objKey(obj) + ".$deref", pt.Elem(), true
	}
	return "", nil, false
}

func (fc *FnCtx) safetyOn() bool {
	return fc.scope == nil && fc.contract != nil && !fc.contract.Extern && fc.noSafety == 0
}

func (fc *FnCtx) trIndex(st *State, x *ast.IndexExpr) Val {
	base := fc.tr(st, x.X)
	switch base.S {
	case SStr:
		i := fc.tr(st, x.Index)
		if fc.safetyOn() {
			ord := fc.siteOrdinal("index", x)
			fc.oblige(st, fmt.Sprintf("index#%d", ord), "index", fc.contract.safetyTags(),
				"(and (<= 0 "+i.T+") (< "+i.T+" (slen "+base.T+")))", "index in range: "+exprString(x), x)
		}
		return Val{T: "(at " + base.T + " " + i.T + ")", S: SInt, GT: types.Typ[types.Uint8]}
	case SSL:
		i := fc.tr(st, x.Index)
		if fc.safetyOn() {
			ord := fc.siteOrdinal("index", x)
			fc.oblige(st, fmt.Sprintf("index#%d", ord), "index", fc.contract.safetyTags(),
				"(and (<= 0 "+i.T+") (< "+i.T+" (sllen "+base.T+")))", "index in range: "+exprString(x), x)
		}
		return Val{T: "(sat_ " + base.T + " " + i.T + ")", S: SStr}
	case SIL:
		i := fc.tr(st, x.Index)
		if fc.safetyOn() {
			ord := fc.siteOrdinal("index", x)
			fc.oblige(st, fmt.Sprintf("index#%d", ord), "index", fc.contract.safetyTags(),
				"(and (<= 0 "+i.T+") (< "+i.T+" (illen "+base.T+")))", "index in range: "+exprString(x), x)
		}
		return Val{T: "(select (ints " + base.T + ") " + i.T + ")", S: SInt}
	case SMap:
		k := fc.tr(st, x.Index)
		return fc.mapRead(st, base, k, fc.typeOf(x))
	case SOL:
		i := fc.tr(st, x.Index)
		if fc.safetyOn() {
			ord := fc.siteOrdinal("index", x)
			fc.oblige(st, fmt.Sprintf("index#%d", ord), "index", fc.contract.safetyTags(),
				"(and (<= 0 "+i.T+") (< "+i.T+" "+base.T+"))", "index in range: "+exprString(x), x)
		}
		et := fc.typeOf(x)
		return fc.freshVal(st, "elem", sortOf(et), et)
	case SLL:
		i := fc.tr(st, x.Index)
		if fc.safetyOn() {
			ord := fc.siteOrdinal("index", x)
			fc.oblige(st, fmt.Sprintf("index#%d", ord), "index", fc.contract.safetyTags(),
				"(and (<= 0 "+i.T+") (< "+i.T+" "+base.Rec+"))", "index in range: "+exprString(x), x)
		}
		if i.T != "0" {
			fc.unmodelled["element "+exprString(x)+" of a FindAll result (only [0] is modelled)"] = true
			return fc.freshVal(st, "llelem", SSL, nil)
		}
		return Val{T: base.T, S: SSL}
	}
	fc.errorf("%s: unsupported index base sort %d in %s", fc.posOf(x), base.S, exprString(x))
	return fc.freshVal(st, "idx", sortOf(fc.typeOf(x)), fc.typeOf(x))
}

// ---- maps: (has: Array K Bool, val: Array K V) for K in {Int,Str}, V in {Int,Bool,Str} ----

func mapSorts(gt types.Type) (Sort, Sort, types.Type, bool) {
	if gt == nil {
		return 0, 0, nil, false
	}
	m, ok := gt.Underlying().(*types.Map)
	if !ok {
		return 0, 0, nil, false
	}
	ks, vs := sortOf(m.Key()), sortOf(m.Elem())
	if ks != SInt && ks != SStr {
		return ks, vs, m.Elem(), false
	}
	if vs != SInt && vs != SBool && vs != SStr {
		// values are not modelled: membership only (the value array holds dummies)
		return ks, SInt, m.Elem(), true
	}
	return ks, vs, m.Elem(), true
}

func (fc *FnCtx) mapArrays(st *State, m Val) (has, val string, ok bool) {
	ks, vs, _, good := mapSorts(m.GT)
	if !good || m.Rec == "" {
		return "", "", false
	}
	get := func(suffix, sortDecl, zero string) string {
		key := m.Rec + suffix
		if v, ok := st.env[key]; ok {
			return v.T
		}
		if st.fresh[m.Rec] {
			t := "((as const " + sortDecl + ") " + zero + ")"
			st.env[key] = Val{T: t, S: SOpaque, Raw: sortDecl}
			return t
		}
		if v, ok := fc.initial[key]; ok {
			return v.T
		}
		n := fc.freshName("in_" + key)
		fc.decls = append(fc.decls, fmt.Sprintf("(declare-const %s %s)", n, sortDecl))
		fc.initial[key] = Val{T: n, S: SOpaque, Raw: sortDecl}
		return n
	}
	zero := map[Sort]string{SInt: "0", SBool: "false", SStr: "emptystr"}[vs]
	has = get(".has", "(Array "+ks.smt()+" Bool)", "false")
	val = get(".val", "(Array "+ks.smt()+" "+vs.smt()+")", zero)
	return has, val, true
}

// structFieldsOf: a struct (by value) whose fields are all scalars or strings can be the
// element type of a modelled map: one array per field (Rec.val.<field>).
func structFieldsOf(et types.Type) ([]*types.Var, bool) {
	if et == nil {
		return nil, false
	}
	stt, ok := et.Underlying().(*types.Struct)
	if !ok || stt.NumFields() == 0 {
		return nil, false
	}
	var out []*types.Var
	for i := 0; i < stt.NumFields(); i++ {
		f := stt.Field(i)
		if fs := sortOf(f.Type()); fs != SInt && fs != SBool && fs != SStr {
			return nil, false
		}
		out = append(out, f)
	}
	return out, true
}

func (fc *FnCtx) mapFieldArray(st *State, m Val, f *types.Var) (string, string) {
	ks, _, _, _ := mapSorts(m.GT)
	fs := sortOf(f.Type())
	sortDecl := "(Array " + ks.smt() + " " + fs.smt() + ")"
	key := m.Rec + ".val." + f.Name()
	if v, ok := st.env[key]; ok {
		return v.T, sortDecl
	}
	if st.fresh[m.Rec] {
		zero := map[Sort]string{SInt: "0", SBool: "false", SStr: "emptystr"}[fs]
		t := "((as const " + sortDecl + ") " + zero + ")"
		st.env[key] = Val{T: t, S: SOpaque, Raw: sortDecl}
		return t, sortDecl
	}
	if v, ok := fc.initial[key]; ok {
		return v.T, sortDecl
	}
	n := fc.freshName("in_" + key)
	fc.decls = append(fc.decls, fmt.Sprintf("(declare-const %s %s)", n, sortDecl))
	fc.initial[key] = Val{T: n, S: SOpaque, Raw: sortDecl}
	return n, sortDecl
}

func (fc *FnCtx) mapRead(st *State, m Val, k Val, resT types.Type) Val {
	_, vs, et, _ := mapSorts(m.GT)
	has, val, ok := fc.mapArrays(st, m)
	if !ok {
		return fc.freshVal(st, "mapread", sortOf(resT), resT)
	}
	if fields, isStruct := structFieldsOf(et); isStruct && sortOf(et) == SRec {
		// struct-valued map: a record whose fields are the per-field arrays read at k
		// (the zero struct when the key is absent)
		rv := fc.freshVal(st, "mapval", SRec, et)
		for _, f := range fields {
			arr, _ := fc.mapFieldArray(st, m, f)
			fs := sortOf(f.Type())
			zero := map[Sort]string{SInt: "0", SBool: "false", SStr: "emptystr"}[fs]
			if fs == SStr {
				// every value stored in a Go map of strings is a well-formed string (stated for all
				// keys: the key at hand may be a bound variable of a quantified clause)
				ks, _, _, _ := mapSorts(m.GT)
				// (added unguarded: the current guard may mention the bound variable)
				st.assume = append(st.assume, "(forall ((zzk "+ks.smt()+")) (! (wfstr (select "+arr+" zzk)) :pattern ((select "+arr+" zzk))))")
			}
			st.env[rv.Rec+"."+f.Name()] = Val{T: "(ite (select " + has + " " + k.T + ") (select " + arr + " " + k.T + ") " + zero + ")", S: fs, GT: f.Type()}
		}
		return rv
	}
	if rs := sortOf(et); rs != SInt && rs != SBool && rs != SStr {
		_ = has
		return fc.freshVal(st, "mapval", rs, et)
	}
	zero := map[Sort]string{SInt: "0", SBool: "false", SStr: "emptystr"}[vs]
	t := "(ite (select " + has + " " + k.T + ") (select " + val + " " + k.T + ") " + zero + ")"
	if vs == SStr {
		// values stored in maps are well-formed strings
		st.addAssume("(wfstr (select " + val + " " + k.T + "))")
	}
	return Val{T: t, S: vs, GT: et}
}

func (fc *FnCtx) mapHas(st *State, m Val, k Val) string {
	has, _, ok := fc.mapArrays(st, m)
	if !ok {
		return fc.declare("maphas", SBool)
	}
	return "(select " + has + " " + k.T + ")"
}

func (fc *FnCtx) mapWrite(st *State, m Val, k, v Val) {
	has, val, ok := fc.mapArrays(st, m)
	if !ok {
		return
	}
	ks, vs, et, _ := mapSorts(m.GT)
	if fields, isStruct := structFieldsOf(et); isStruct && v.S == SRec && v.Rec != "" {
		for _, f := range fields {
			arr, sortDecl := fc.mapFieldArray(st, m, f)
			fv := fc.readKey(st, v.Rec+"."+f.Name(), f.Type())
			st.env[m.Rec+".val."+f.Name()] = Val{T: "(store " + arr + " " + k.T + " " + fv.T + ")", S: SOpaque, Raw: sortDecl}
		}
	}
	if v.S != SInt && v.S != SBool && v.S != SStr {
		v = Val{T: "0", S: SInt}
	}
	st.env[m.Rec+".has"] = Val{T: "(store " + has + " " + k.T + " true)", S: SOpaque, Raw: "(Array " + ks.smt() + " Bool)"}
	st.env[m.Rec+".val"] = Val{T: "(store " + val + " " + k.T + " " + v.T + ")", S: SOpaque, Raw: "(Array " + ks.smt() + " " + vs.smt() + ")"}
}

func (fc *FnCtx) mapDelete(st *State, m Val, k Val) {
	has, _, ok := fc.mapArrays(st, m)
	if !ok {
		return
	}
	ks, _, _, _ := mapSorts(m.GT)
	st.env[m.Rec+".has"] = Val{T: "(store " + has + " " + k.T + " false)", S: SOpaque, Raw: "(Array " + ks.smt() + " Bool)"}
}

func (fc *FnCtx) trSlice(st *State, x *ast.SliceExpr) Val {
	base := fc.tr(st, x.X)
	lenT := ""
	switch base.S {
	case SStr:
		lenT = "(slen " + base.T + ")"
	case SSL:
		lenT = "(sllen " + base.T + ")"
	case SOL:
		lenT = base.T
	default:
		fc.errorf("%s: unsupported slice base in %s", fc.posOf(x), exprString(x))
		return fc.freshVal(st, "slice", sortOf(fc.typeOf(x)), fc.typeOf(x))
	}
	lo, hi := "0", lenT
	if x.Low != nil {
		lo = fc.tr(st, x.Low).T
	}
	if x.High != nil {
		hi = fc.tr(st, x.High).T
	}
	if fc.safetyOn() {
		ord := fc.siteOrdinal("slice", x)
		// Note: for slices (not strings) Go allows hi up to cap; we require hi <= len (stricter; see DESIGN)
		fc.oblige(st, fmt.Sprintf("slice#%d", ord), "slice", fc.contract.safetyTags(),
			"(and (<= 0 "+lo+") (<= "+lo+" "+hi+") (<= "+hi+" "+lenT+"))", "slice bounds: "+exprString(x), x)
	}
	if lo == "0" && hi == lenT {
		return base
	}
	if base.S == SStr {
		return Val{T: "(ssub " + base.T + " " + lo + " " + hi + ")", S: SStr, GT: base.GT}
	}
	if base.S == SOL {
		return Val{T: "(- " + hi + " " + lo + ")", S: SOL, GT: base.GT}
	}
	return Val{T: "(slsub " + base.T + " " + lo + " " + hi + ")", S: SSL, GT: base.GT}
}

func (fc *FnCtx) trSelector(st *State, x *ast.SelectorExpr) Val {
	// package-qualified identifier?
	if id, ok := x.X.(*ast.Ident); ok {
		if fc.scope != nil {
			if _, isVal := fc.scope.lookupVal(id.Name); !isVal {
				if _, isObj := fc.scope.lookupObj(id.Name); !isObj {
					if p := fc.scope.thePkg(); p != nil {
						if _, isPkgLevel := p.Types.Scope().Lookup(id.Name).(types.Object); !isPkgLevel || p.Types.Scope().Lookup(id.Name) == nil {
							// try imported package by name
							for _, imp := range p.Types.Imports() {
								if imp.Name() == id.Name {
									o := imp.Scope().Lookup(x.Sel.Name)
									if o == nil {
										fc.errorf("contract: %s.%s not found", id.Name, x.Sel.Name)
										return Val{S: SOpaque, T: "0"}
									}
									return fc.objVal(st, o)
								}
							}
						}
					}
				}
			}
		} else if pn, ok := fc.info().Uses[id].(*types.PkgName); ok {
			o := pn.Imported().Scope().Lookup(x.Sel.Name)
			if o == nil {
				fc.errorf("%s: %s.%s not found", fc.pos(x), id.Name, x.Sel.Name)
				return Val{S: SOpaque, T: "0"}
			}
			return fc.objVal(st, o)
		}
	}
	base := fc.tr(st, x.X)
	if base.S == SRec && base.Rec != "" {
		ft := fc.fieldType(base.GT, x.Sel.Name)
		if ft == nil {
			ft = fc.typeOf(x)
		}
		return fc.readKey(st, base.Rec+"."+x.Sel.Name, ft)
	}
	fc.errorf("%s: unsupported selector %s", fc.posOf(x), exprString(x))
	return fc.freshVal(st, "sel", sortOf(fc.typeOf(x)), fc.typeOf(x))
}

func (fc *FnCtx) fieldType(t types.Type, name string) types.Type {
	if t == nil {
		return nil
	}
	if p, ok := t.Underlying().(*types.Pointer); ok {
		t = p.Elem()
	}
	s, ok := t.Underlying().(*types.Struct)
	if !ok {
		return nil
	}
	for i := 0; i < s.NumFields(); i++ {
		if s.Field(i).Name() == name {
			return s.Field(i).Type()
		}
	}
	return nil
}

func (fc *FnCtx) trComposite(st *State, x *ast.CompositeLit) Val {
	t := fc.typeOf(x)
	if t == nil {
		fc.errorf("composite literal in contract not supported")
		return Val{S: SOpaque, T: "0"}
	}
	s := sortOf(t)
	switch s {
	case SSL:
		cur := "emptysl"
		for _, el := range x.Elts {
			v := fc.tr(st, el)
			cur = "(appendstr " + cur + " " + v.T + ")"
		}
		return Val{T: cur, S: SSL, GT: t}
	case SStr: // []byte{...}
		cur := "emptystr"
		for _, el := range x.Elts {
			v := fc.tr(st, el)
			cur = "(appendbyte " + cur + " " + v.T + ")"
		}
		return Val{T: cur, S: SStr, GT: t}
	case SIL:
		cur := "(mkil ((as const (Array Int Int)) 0) 0)"
		for i, el := range x.Elts {
			v := fc.tr(st, el)
			cur = fmt.Sprintf("(mkil (store (ints %s) %d %s) %d)", cur, i, v.T, i+1)
		}
		return Val{T: cur, S: SIL, GT: t}
	case SBuf:
		v := fc.freshVal(st, "buf", SBuf, t)
		st.env[v.Rec] = Val{T: "emptystr", S: SStr}
		return v
	case SRec:
		v := fc.freshVal(st, "lit", SRec, t)
		st.fresh[v.Rec] = true
		var stt *types.Struct
		if tt := t; tt != nil {
			if p, ok := tt.Underlying().(*types.Pointer); ok {
				tt = p.Elem()
			}
			stt, _ = tt.Underlying().(*types.Struct)
		}
		for ei, el := range x.Elts {
			var fname string
			var valueExpr ast.Expr
			if kv, ok := el.(*ast.KeyValueExpr); ok {
				fname = kv.Key.(*ast.Ident).Name
				valueExpr = kv.Value
			} else if stt != nil && ei < stt.NumFields() {
				fname = stt.Field(ei).Name()
				valueExpr = el
			} else {
				fc.errorf("%s: unsupported struct literal", fc.pos(x))
				continue
			}
			fv := fc.tr(st, valueExpr)
			ft := fc.fieldType(t, fname)
			if fv.S == SNil {
				fv = zeroVal(fc, st, sortOf(ft), ft)
			}
			fv.GT = ft
			st.env[v.Rec+"."+fname] = fv
		}
		return v
	case SMap:
		v := fc.freshVal(st, "maplit", SMap, t)
		st.fresh[v.Rec] = true
		for _, el := range x.Elts {
			kv := el.(*ast.KeyValueExpr)
			fc.mapWrite(st, v, fc.tr(st, kv.Key), fc.tr(st, kv.Value))
		}
		return v
	}
	fc.errorf("%s: unsupported composite literal %s", fc.pos(x), exprString(x))
	return fc.freshVal(st, "lit", s, t)
}

func exprString(e ast.Node) string {
	var b strings.Builder
	writeExpr(&b, e)
	s := b.String()
	if len(s) > 80 {
		s = s[:77] + "..."
	}
	return s
}

func writeExpr(b *strings.Builder, n ast.Node) {
	switch x := n.(type) {
	case *ast.Ident:
		b.WriteString(x.Name)
	case *ast.BasicLit:
		b.WriteString(x.Value)
	case *ast.SelectorExpr:
		writeExpr(b, x.X)
		b.WriteString("." + x.Sel.Name)
	case *ast.IndexExpr:
		writeExpr(b, x.X)
		b.WriteString("[")
		writeExpr(b, x.Index)
		b.WriteString("]")
	case *ast.SliceExpr:
		writeExpr(b, x.X)
		b.WriteString("[")
		if x.Low != nil {
			writeExpr(b, x.Low)
		}
		b.WriteString(":")
		if x.High != nil {
			writeExpr(b, x.High)
		}
		b.WriteString("]")
	case *ast.BinaryExpr:
		writeExpr(b, x.X)
		b.WriteString(x.Op.String())
		writeExpr(b, x.Y)
	case *ast.UnaryExpr:
		b.WriteString(x.Op.String())
		writeExpr(b, x.X)
	case *ast.ParenExpr:
		b.WriteString("(")
		writeExpr(b, x.X)
		b.WriteString(")")
	case *ast.CallExpr:
		writeExpr(b, x.Fun)
		b.WriteString("(")
		for i, a := range x.Args {
			if i > 0 {
				b.WriteString(", ")
			}
			writeExpr(b, a)
		}
		b.WriteString(")")
	case *ast.StarExpr:
		b.WriteString("*")
		writeExpr(b, x.X)
	case *ast.CompositeLit:
		b.WriteString("{...}")
	case *ast.FuncLit:
		b.WriteString("func(...){...}")
	case *ast.ArrayType:
		b.WriteString("[]")
		writeExpr(b, x.Elt)
	default:
		fmt.Fprintf(b, "<%T>", n)
	}
}
