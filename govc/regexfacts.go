package main

// Regular expressions in the code under verification (DESIGN 2.4).
//
// T2 "any-decomposition" facts, derived mechanically from the pattern literal in the
// *current* source on every run: whatever match the engine picks, the matched
// substring m = s[a:b] has at least minLen bytes, its first k bytes lie in the
// byte classes of the pattern's leading fixed-width elements and its last k' bytes
// in those of the trailing ones; a leading ^ (without (?m)) forces a == 0, a
// trailing $ forces b == len(s).

import (
	"fmt"
	"go/ast"
	"go/constant"
	"go/token"
	"go/types"
	"regexp/syntax"
	"strings"

	"golang.org/x/tools/go/packages"
)

type byteSet [256]bool

type RegexInfo struct {
	Literal   string
	Re        *syntax.Regexp
	NumSubexp int
	AnchorBeg bool
	AnchorEnd bool
	MinLen    int
	Prefix    []byteSet
	Suffix    []byteSet // from the end: Suffix[0] is the last byte
	Err       string
	Tiles     int // n > 0: pattern is ^(g1)..(gn)$, the groups tile the subject
	GroupFixed map[int][]byteSet // mandatory top-level groups of fixed width: their byte classes
	Middle    *byteSet // pattern is <Prefix><one byte class repeated><Suffix>: every byte in between is in the class
}

func hasCapture(re *syntax.Regexp) bool {
	if re.Op == syntax.OpCapture {
		return true
	}
	for _, s := range re.Sub {
		if hasCapture(s) {
			return true
		}
	}
	return false
}

// regexLiteralOf finds the pattern literal behind the receiver expression of a regexp
// method call: a local `x := regexp.MustCompile(lit)` of the same function, or a
// package-level variable of /repo initialised that way (possibly through an alias).
func (fc *FnCtx) regexLiteralOf(recv ast.Expr) (string, bool) {
	switch r := recv.(type) {
	case *ast.Ident:
		obj, ok := fc.info().Uses[r].(*types.Var)
		if !ok {
			return "", false
		}
		if obj.Parent() == obj.Pkg().Scope() {
			return fc.w.pkgVarRegex(obj)
		}
		// local: find its single definition in this function
		var lit string
		found := 0
		ast.Inspect(fc.body, func(n ast.Node) bool {
			as, ok := n.(*ast.AssignStmt)
			if !ok {
				return true
			}
			for i, l := range as.Lhs {
				id, ok := l.(*ast.Ident)
				if !ok || fc.info().ObjectOf(id) != obj || i >= len(as.Rhs) {
					continue
				}
				found++
				if s, ok := fc.mustCompileLiteral(fc.pkg.TypesInfo, as.Rhs[i]); ok {
					lit = s
				} else {
					found += 100
				}
			}
			return true
		})
		if found == 1 {
			return lit, true
		}
	case *ast.SelectorExpr:
		if id, ok := r.X.(*ast.Ident); ok {
			if pn, ok := fc.info().Uses[id].(*types.PkgName); ok {
				if v, ok := pn.Imported().Scope().Lookup(r.Sel.Name).(*types.Var); ok {
					return fc.w.pkgVarRegex(v)
				}
			}
		}
	}
	return "", false
}

func (fc *FnCtx) mustCompileLiteral(info *types.Info, e ast.Expr) (string, bool) {
	return mustCompileLiteral(info, e)
}

func mustCompileLiteral(info *types.Info, e ast.Expr) (string, bool) {
	call, ok := e.(*ast.CallExpr)
	if !ok || len(call.Args) != 1 {
		return "", false
	}
	se, ok := call.Fun.(*ast.SelectorExpr)
	if !ok || se.Sel.Name != "MustCompile" {
		return "", false
	}
	if id, ok := se.X.(*ast.Ident); !ok || id.Name != "regexp" {
		return "", false
	}
	tv, ok := info.Types[call.Args[0]]
	if !ok || tv.Value == nil {
		return "", false
	}
	s := tv.Value.ExactString()
	if len(s) >= 2 && s[0] == '"' {
		var out string
		if _, err := fmt.Sscanf(s, "%q", &out); err == nil {
			return out, true
		}
	}
	return "", false
}

// pkgVarRegex: pattern literal of a package-level *regexp.Regexp variable of /repo.
func (w *World) pkgVarRegex(v *types.Var) (string, bool) {
	if lit, ok := w.regexVars[objKey(v)]; ok {
		return lit, true
	}
	return "", false
}

func (w *World) collectRegexVars() {
	w.regexVars = map[string]string{}
	alias := map[string]string{} // objKey -> objKey
	for _, p := range w.pkgs {
		for _, f := range p.Syntax {
			fname := p.Fset.Position(f.Pos()).Filename
			if strings.HasSuffix(fname, "_test.go") || isVerifFile(fname) {
				continue
			}
			for _, d := range f.Decls {
				gd, ok := d.(*ast.GenDecl)
				if !ok || gd.Tok != token.VAR {
					continue
				}
				for _, sp := range gd.Specs {
					vs := sp.(*ast.ValueSpec)
					for i, nm := range vs.Names {
						if i >= len(vs.Values) {
							continue
						}
						o := p.TypesInfo.Defs[nm]
						if o == nil {
							continue
						}
						if lit, ok := mustCompileLiteral(p.TypesInfo, vs.Values[i]); ok {
							w.regexVars[objKey(o)] = lit
							w.regexVarNames = append(w.regexVarNames, p.Name+"."+nm.Name)
							w.regexByName[p.Name+"."+nm.Name] = lit
							continue
						}
						if se, ok := vs.Values[i].(*ast.SelectorExpr); ok {
							if id, ok := se.X.(*ast.Ident); ok {
								if pn, ok := p.TypesInfo.Uses[id].(*types.PkgName); ok {
									if tv, ok := pn.Imported().Scope().Lookup(se.Sel.Name).(*types.Var); ok {
										alias[objKey(o)] = objKey(tv)
									}
								}
							}
						}
					}
				}
			}
		}
	}
	for a, t := range alias {
		if lit, ok := w.regexVars[t]; ok {
			w.regexVars[a] = lit
		}
	}
	// string constants of dependencies that are used as patterns (read from the type
	// information of the module source actually compiled in): semver.semVerRegex
	var visit func(p *packages.Package, seen map[string]bool)
	visit = func(p *packages.Package, seen map[string]bool) {
		if seen[p.PkgPath] {
			return
		}
		seen[p.PkgPath] = true
		if p.PkgPath == "github.com/Masterminds/semver/v3" && p.Types != nil {
			if c, ok := p.Types.Scope().Lookup("semVerRegex").(*types.Const); ok {
				if v, ok := constVal(c.Val(), c.Type()); ok && v.S == SStr {
					w.regexByName["semver.semVerRegex"] = constant.StringVal(c.Val())
				}
			}
		}
		for _, imp := range p.Imports {
			visit(imp, seen)
		}
	}
	seen := map[string]bool{}
	for _, p := range w.pkgs {
		visit(p, seen)
	}
}

func (w *World) regexInfo(lit string) *RegexInfo {
	if ri, ok := w.regexInfos[lit]; ok {
		return ri
	}
	ri := &RegexInfo{Literal: lit}
	w.regexInfos[lit] = ri
	re, err := syntax.Parse(lit, syntax.Perl)
	if err != nil {
		ri.Err = err.Error()
		return ri
	}
	ri.NumSubexp = re.MaxCap()
	ri.Re = re
	elems := flattenConcat(re)
	// anchors
	if len(elems) > 0 && elems[0].Op == syntax.OpBeginText {
		ri.AnchorBeg = true
		elems = elems[1:]
	}
	if len(elems) > 0 && elems[len(elems)-1].Op == syntax.OpEndText {
		ri.AnchorEnd = true
		elems = elems[:len(elems)-1]
	}
	// mandatory top-level capture groups of fixed width (e.g. (\d{6})): T2 fact on the group text
	ri.GroupFixed = map[int][]byteSet{}
	{
		top := []*syntax.Regexp{re}
		if re.Op == syntax.OpConcat {
			top = re.Sub
		}
		for _, e := range top {
			if e.Op == syntax.OpCapture {
				if bs, ok := fixedBytes(expandRepeat(e.Sub[0])); ok {
					ri.GroupFixed[e.Cap] = bs
				}
			}
		}
	}
	if ri.AnchorBeg && ri.AnchorEnd {
		// top-level shape ^(..)(..)..(..)$ with top-level captures numbered 1..n
		top := []*syntax.Regexp{re}
		if re.Op == syntax.OpConcat {
			top = re.Sub
		}
		n := 0
		okTiles := true
		for _, e := range top {
			switch e.Op {
			case syntax.OpBeginText, syntax.OpEndText:
			case syntax.OpCapture:
				n++
				if e.Cap != n || hasCapture(e.Sub[0]) {
					okTiles = false
				}
			default:
				okTiles = false
			}
		}
		if okTiles && n == ri.NumSubexp && n > 0 {
			ri.Tiles = n
		}
	}
	for _, e := range elems {
		ri.MinLen += minLen(e)
	}
	pe := 0
	for _, e := range elems {
		bs, ok := fixedBytes(e)
		if !ok {
			break
		}
		ri.Prefix = append(ri.Prefix, bs...)
		pe++
	}
	se := 0
	for i := len(elems) - 1; i >= pe; i-- {
		bs, ok := fixedBytes(elems[i])
		if !ok {
			break
		}
		for j := len(bs) - 1; j >= 0; j-- {
			ri.Suffix = append(ri.Suffix, bs[j])
		}
		se++
	}
	if pe == len(elems) {
		// the whole pattern has a fixed width: Prefix describes all of it
		ri.Suffix = nil
	}
	// T2: exactly one element between the fixed prefix and the fixed suffix, and it repeats
	// one byte class: every byte between prefix and suffix of a full match is in that class
	if pe+se == len(elems)-1 {
		m := elems[pe]
		if (m.Op == syntax.OpPlus || m.Op == syntax.OpStar || (m.Op == syntax.OpRepeat && m.Max == -1)) && len(m.Sub) == 1 {
			if bs, ok := fixedBytes(m.Sub[0]); ok && len(bs) == 1 {
				ri.Middle = &bs[0]
			}
		}
	}
	return ri
}

// flattenConcat: top-level concatenation elements, looking through capture groups
// only when they wrap the whole element list is not attempted: groups are kept.
func flattenConcat(re *syntax.Regexp) []*syntax.Regexp {
	switch re.Op {
	case syntax.OpConcat:
		var out []*syntax.Regexp
		for _, s := range re.Sub {
			out = append(out, flattenConcat(s)...)
		}
		return out
	case syntax.OpCapture:
		return flattenConcat(re.Sub[0])
	}
	return []*syntax.Regexp{re}
}

func minLen(re *syntax.Regexp) int {
	switch re.Op {
	case syntax.OpLiteral:
		n := 0
		for _, r := range re.Rune {
			n += len(string(r))
		}
		return n
	case syntax.OpCharClass, syntax.OpAnyChar, syntax.OpAnyCharNotNL:
		return 1
	case syntax.OpConcat:
		n := 0
		for _, s := range re.Sub {
			n += minLen(s)
		}
		return n
	case syntax.OpAlternate:
		m := -1
		for _, s := range re.Sub {
			if l := minLen(s); m < 0 || l < m {
				m = l
			}
		}
		if m < 0 {
			return 0
		}
		return m
	case syntax.OpCapture:
		return minLen(re.Sub[0])
	case syntax.OpPlus:
		return minLen(re.Sub[0])
	case syntax.OpRepeat:
		return re.Min * minLen(re.Sub[0])
	}
	return 0
}

// fixedBytes: byte classes of an element that always matches a fixed number of
// single-byte characters (ASCII literals and ASCII-only classes).
func fixedBytes(re *syntax.Regexp) ([]byteSet, bool) {
	switch re.Op {
	case syntax.OpLiteral:
		var out []byteSet
		for _, r := range re.Rune {
			if r >= 128 {
				return nil, false
			}
			var bs byteSet
			bs[r] = true
			if re.Flags&syntax.FoldCase != 0 {
				if r >= 'a' && r <= 'z' {
					bs[r-32] = true
				} else if r >= 'A' && r <= 'Z' {
					bs[r+32] = true
				}
			}
			out = append(out, bs)
		}
		return out, true
	case syntax.OpCharClass:
		var bs byteSet
		for i := 0; i+1 < len(re.Rune); i += 2 {
			lo, hi := re.Rune[i], re.Rune[i+1]
			if hi >= 128 {
				return nil, false
			}
			for c := lo; c <= hi; c++ {
				bs[c] = true
			}
		}
		return []byteSet{bs}, true
	case syntax.OpCapture:
		return fixedBytes(re.Sub[0])
	case syntax.OpConcat:
		var out []byteSet
		for _, s := range re.Sub {
			b, ok := fixedBytes(s)
			if !ok {
				return nil, false
			}
			out = append(out, b...)
		}
		return out, true
	}
	return nil, false
}

func byteSetTerm(bs byteSet, t string) string {
	var alts []string
	for c := 0; c < 256; {
		if !bs[c] {
			c++
			continue
		}
		d := c
		for d+1 < 256 && bs[d+1] {
			d++
		}
		if c == d {
			alts = append(alts, fmt.Sprintf("(= %s %d)", t, c))
		} else {
			alts = append(alts, fmt.Sprintf("(and (<= %d %s) (<= %s %d))", c, t, t, d))
		}
		c = d + 1
	}
	switch len(alts) {
	case 0:
		return "false"
	case 1:
		return alts[0]
	}
	return "(or " + strings.Join(alts, " ") + ")"
}

// matchFacts: facts about a match of ri in s spanning [a,b).
func (ri *RegexInfo) matchFacts(s, a, b string) string {
	fs := []string{"(<= 0 " + a + ")", "(<= " + a + " " + b + ")", "(<= " + b + " (slen " + s + "))",
		fmt.Sprintf("(>= (- %s %s) %d)", b, a, ri.MinLen)}
	if ri.AnchorBeg {
		fs = append(fs, "(= "+a+" 0)")
	}
	if ri.AnchorEnd {
		fs = append(fs, "(= "+b+" (slen "+s+"))")
	}
	for i, bs := range ri.Prefix {
		fs = append(fs, byteSetTerm(bs, fmt.Sprintf("(at %s (+ %s %d))", s, a, i)))
	}
	for i, bs := range ri.Suffix {
		fs = append(fs, byteSetTerm(bs, fmt.Sprintf("(at %s (- %s %d))", s, b, i+1)))
	}
	return and(fs...)
}

// Uninterpreted "matches" / "group k" functions per pattern literal. They let contracts
// and spec functions talk about the real regexp's verdict: the model of the regexp
// methods asserts `result != nil <=> rematch_L(s)` and `result[k] == regroup_L_k(s)`.
func (w *World) regexUF(lit string) string {
	if id, ok := w.regexIDs[lit]; ok {
		return id
	}
	id := fmt.Sprintf("re%d", len(w.regexIDs))
	w.regexIDs[lit] = id
	return id
}

func (w *World) regexUFDecls(text string) string {
	var b strings.Builder
	var lits []string
	for lit := range w.regexIDs {
		lits = append(lits, lit)
	}
	sortStrings(lits)
	for _, lit := range lits {
		id := w.regexIDs[lit]
		if strings.Contains(text, "rereplace_"+id+" ") || strings.Contains(text, "rereplacelit_"+id+" ") {
			fmt.Fprintf(&b, "(declare-fun rereplace_%s (Str Str) Str)\n(declare-fun rereplacelit_%s (Str Str) Str)\n", id, id)
			fmt.Fprintf(&b, "(assert (forall ((s Str) (t Str)) (! (=> (and (wfstr s) (wfstr t)) (wfstr (rereplace_%s s t))) :pattern ((rereplace_%s s t)))))\n", id, id)
		}
		if !strings.Contains(text, "rematch_"+id) && !strings.Contains(text, "regroup_"+id) {
			continue
		}
		fmt.Fprintf(&b, "; pattern %q\n(declare-fun rematch_%s (Str) Bool)\n", lit, id)
		ri := w.regexInfo(lit)
		for k := 0; k <= ri.NumSubexp; k++ {
			fmt.Fprintf(&b, "(declare-fun regroup_%s_%d (Str) Str)\n", id, k)
			fmt.Fprintf(&b, "(assert (forall ((s Str)) (! (=> (wfstr s) (wfstr (regroup_%s_%d s))) :pattern ((regroup_%s_%d s)))))\n", id, k, id, k)
			// T2: a capture group is a (possibly empty) substring of the subject
			fmt.Fprintf(&b, "(declare-fun regrlo_%s_%d (Str) Int)\n(declare-fun regrhi_%s_%d (Str) Int)\n", id, k, id, k)
			// (guarded by slen s >= 0: the SMT universe also contains ill-formed strings of
			// negative length, for which an unguarded 0 <= lo <= hi <= slen s would be inconsistent)
			fmt.Fprintf(&b, "(assert (forall ((s Str)) (! (=> (>= (slen s) 0) (and (<= 0 (regrlo_%s_%d s)) (<= (regrlo_%s_%d s) (regrhi_%s_%d s)) (<= (regrhi_%s_%d s) (slen s)) (= (regroup_%s_%d s) (ssub s (regrlo_%s_%d s) (regrhi_%s_%d s))))) :pattern ((regroup_%s_%d s)))))\n",
				id, k, id, k, id, k, id, k, id, k, id, k, id, k, id, k)
		}
		for k, bs := range ri.GroupFixed {
			var fs []string
			g := fmt.Sprintf("(regroup_%s_%d s)", id, k)
			fs = append(fs, fmt.Sprintf("(= (slen %s) %d)", g, len(bs)))
			for i, b := range bs {
				fs = append(fs, byteSetTerm(b, fmt.Sprintf("(at %s %d)", g, i)))
			}
			fmt.Fprintf(&b, "(assert (forall ((s Str)) (! (=> (rematch_%s s) %s) :pattern ((rematch_%s s)))))\n", id, and(fs...), id)
		}
		if ri.Tiles > 0 {
			// T2: the pattern is ^(g1)(g2)..(gn)$ - the groups tile the whole subject
			cat := fmt.Sprintf("(regroup_%s_1 s)", id)
			for k := 2; k <= ri.Tiles; k++ {
				cat = fmt.Sprintf("(scat %s (regroup_%s_%d s))", cat, id, k)
			}
			fmt.Fprintf(&b, "(assert (forall ((s Str)) (! (=> (rematch_%s s) (= s %s)) :pattern ((rematch_%s s)))))\n", id, cat, id)
		}
	}
	return b.String()
}

// trRegexpMethod models methods of *regexp.Regexp whose pattern literal is known.
func (fc *FnCtx) trRegexpMethod(st *State, call *ast.CallExpr, fn *types.Func, recvExpr ast.Expr) ([]Val, bool) {
	lit, ok := fc.regexLiteralOf(recvExpr)
	if !ok {
		// a pattern computed at run time (regexp.MustCompile(fmt.Sprintf(...))): its verdict is
		// an uninterpreted function of (pattern text, subject)
		rv := fc.tr(st, recvExpr)
		if rv.S == SRec && rv.Rec != "" {
			if pat, ok := st.env[rv.Rec+".$pattern"]; ok && (fn.Name() == "Match" || fn.Name() == "MatchString") {
				a := fc.tr(st, call.Args[0])
				fc.w.needDynRe = true
				return []Val{boolVal("(rematchdyn " + pat.T + " " + a.T + ")")}, true
			}
			// a regex object whose pattern is not known here (a parameter): its matches are
			// described by uninterpreted predicates over the object's identity
			id := fc.regexObjID(st, rv)
			switch fn.Name() {
			case "FindStringIndex", "FindIndex":
				sv := fc.tr(st, call.Args[0])
				loc := fc.freshVal(st, "re_loc", SIL, nil)
				a := "(select (ints " + loc.T + ") 0)"
				b := "(select (ints " + loc.T + ") 1)"
				st.addAssume("(= (not (= (illen " + loc.T + ") 0)) (reobj_any " + id + " " + sv.T + "))")
				st.addAssume("(or (= (illen " + loc.T + ") 0) (and (= (illen " + loc.T + ") 2) (<= 0 " + a + ") (<= " + a + " " + b + ") (<= " + b + " (slen " + sv.T + ")) (reobj_span " + id + " (ssub " + sv.T + " " + a + " " + b + "))))")
				return []Val{loc}, true
			case "MatchString", "Match":
				sv := fc.tr(st, call.Args[0])
				return []Val{boolVal("(reobj_any " + id + " " + sv.T + ")")}, true
			}
		}
		return nil, false
	}
	ri := fc.w.regexInfo(lit)
	if ri.Err != "" {
		return nil, false
	}
	var args []Val
	for _, a := range call.Args {
		args = append(args, fc.tr(st, a))
	}
	fc.regexUsed[lit] = true
	switch fn.Name() {
	case "MatchString", "Match":
		m := "(rematch_" + fc.w.regexUF(lit) + " " + args[0].T + ")"
		a := fc.declare("re_a", SInt)
		b := fc.declare("re_b", SInt)
		st.addAssume(implies(m, ri.matchFacts(args[0].T, a, b)))
		return []Val{boolVal(m)}, true
	case "ReplaceAllString", "ReplaceAllLiteralString":
		// the result is an uninterpreted function of (subject, template) for this pattern
		id := fc.w.regexUF(lit)
		kind := "rereplace_"
		if fn.Name() == "ReplaceAllLiteralString" {
			kind = "rereplacelit_"
		}
		return []Val{{T: "(" + kind + id + " " + args[0].T + " " + args[1].T + ")", S: SStr}}, true
	case "FindStringIndex", "FindIndex":
		loc := fc.freshVal(st, "re_loc", SIL, nil)
		a := "(select (ints " + loc.T + ") 0)"
		b := "(select (ints " + loc.T + ") 1)"
		st.addAssume("(= (not (= (illen " + loc.T + ") 0)) (rematch_" + fc.w.regexUF(lit) + " " + args[0].T + "))")
		st.addAssume("(or (= (illen " + loc.T + ") 0) (and (= (illen " + loc.T + ") 2) " + ri.matchFacts(args[0].T, a, b) + "))")
		return []Val{loc}, true
	case "FindAllStringSubmatch", "FindAllSubmatch":
		// only the first match is modelled: value = (count, first match list)
		ms := fc.freshVal(st, "re_sub", SSL, nil)
		cnt := fc.freshVal(st, "re_count", SInt, nil)
		id := fc.w.regexUF(lit)
		a := fc.declare("re_a", SInt)
		b := fc.declare("re_b", SInt)
		var groups []string
		for k := 0; k <= ri.NumSubexp; k++ {
			groups = append(groups, fmt.Sprintf("(= (sat_ %s %d) (regroup_%s_%d %s))", ms.T, k, id, k, args[0].T))
		}
		st.addAssume("(>= " + cnt.T + " 0)")
		st.addAssume("(= (> " + cnt.T + " 0) (rematch_" + id + " " + args[0].T + "))")
		st.addAssume("(=> (> " + cnt.T + " 0) (and (= (sllen " + ms.T + ") " + fmt.Sprint(ri.NumSubexp+1) + ") " + ri.matchFacts(args[0].T, a, b) + " " + strings.Join(groups, " ") + "))")
		return []Val{{S: SLL, T: ms.T, Rec: cnt.T}}, true
	case "FindStringSubmatch", "FindSubmatch":
		ms := fc.freshVal(st, "re_sub", SSL, nil)
		a := fc.declare("re_a", SInt)
		b := fc.declare("re_b", SInt)
		id := fc.w.regexUF(lit)
		var groups []string
		for k := 0; k <= ri.NumSubexp; k++ {
			groups = append(groups, fmt.Sprintf("(= (sat_ %s %d) (regroup_%s_%d %s))", ms.T, k, id, k, args[0].T))
		}
		st.addAssume("(= (not (= (sllen " + ms.T + ") 0)) (rematch_" + id + " " + args[0].T + "))")
		st.addAssume("(or (= (sllen " + ms.T + ") 0) (and (= (sllen " + ms.T + ") " + fmt.Sprint(ri.NumSubexp+1) + ") " +
			ri.matchFacts(args[0].T, a, b) + " (= (sat_ " + ms.T + " 0) (ssub " + args[0].T + " " + a + " " + b + ")) " + strings.Join(groups, " ") + "))")
		return []Val{ms}, true
	}
	return nil, false
}

// regexObjID: an integer constant standing for the identity of a regex object.
func (fc *FnCtx) regexObjID(st *State, rv Val) string {
	k := rv.Rec + ".$id"
	if v, ok := st.env[k]; ok {
		return v.T
	}
	v := fc.initialVal(k, SInt, nil)
	return v.T
}

// spanFacts: facts about a text matched entirely by the pattern (positions from 0).
func (ri *RegexInfo) spanFacts(m string) string {
	fs := []string{fmt.Sprintf("(>= (slen %s) %d)", m, ri.MinLen)}
	for i, bs := range ri.Prefix {
		fs = append(fs, byteSetTerm(bs, fmt.Sprintf("(at %s %d)", m, i)))
	}
	for i, bs := range ri.Suffix {
		fs = append(fs, byteSetTerm(bs, fmt.Sprintf("(at %s (- (slen %s) %d))", m, m, i+1)))
	}
	if ri.Middle != nil {
		fs = append(fs, fmt.Sprintf("(forall ((zzi Int)) (! (=> (and (<= %d zzi) (< zzi (- (slen %s) %d))) %s) :pattern ((select (chars %s) zzi))))",
			len(ri.Prefix), m, len(ri.Suffix), byteSetTerm(*ri.Middle, fmt.Sprintf("(select (chars %s) zzi)", m)), m))
	}
	return and(fs...)
}

// bindRegexArg: a regex with a known literal is passed to a function under contract: what
// the callee says about spans of its parameter is linked to the literal's T2 facts.
func (fc *FnCtx) bindRegexArg(st *State, argExpr ast.Expr, v Val) {
	if v.S != SRec || v.Rec == "" {
		return
	}
	lit, ok := fc.regexLiteralOf(argExpr)
	if !ok {
		return
	}
	ri := fc.w.regexInfo(lit)
	if ri.Err != "" {
		return
	}
	id := fc.regexObjID(st, v)
	st.addAssume("(forall ((m Str)) (! (=> (reobj_span " + id + " m) " + ri.spanFacts("m") + ") :pattern ((reobj_span " + id + " m))))")
}

// expandRepeat: x{n} with a fixed count becomes n copies (so that fixedBytes sees it).
func expandRepeat(re *syntax.Regexp) *syntax.Regexp {
	if re.Op == syntax.OpRepeat && re.Min == re.Max && re.Min >= 0 && re.Min <= 16 {
		n := &syntax.Regexp{Op: syntax.OpConcat}
		for i := 0; i < re.Min; i++ {
			n.Sub = append(n.Sub, expandRepeat(re.Sub[0]))
		}
		return n
	}
	if len(re.Sub) == 0 {
		return re
	}
	c := *re
	c.Sub = make([]*syntax.Regexp, len(re.Sub))
	for i, s := range re.Sub {
		c.Sub[i] = expandRepeat(s)
	}
	return &c
}
