package main

// T1 regular-language obligations (DESIGN 2.4): pattern literals of the current
// source are compiled to SMT-LIB RegLan terms; emptiness / inclusion questions are
// decided by cvc5 and z3 5.1 (z3 4.8.12 is never used here).

import (
	"fmt"
	"go/ast"
	"go/parser"
	"go/token"
	"regexp/syntax"
	"strconv"
	"strings"
	"time"
)

func smtChar(r rune) string {
	if (r >= 'a' && r <= 'z') || (r >= 'A' && r <= 'Z') || (r >= '0' && r <= '9') {
		return string(r)
	}
	return fmt.Sprintf("\\u{%x}", r)
}

func smtStringLit(s string) string {
	var b strings.Builder
	b.WriteByte('"')
	for _, r := range s {
		b.WriteString(smtChar(r))
	}
	b.WriteByte('"')
	return b.String()
}

const maxSMTChar = 0x2FFFF

func reRange(lo, hi rune) string {
	if hi > maxSMTChar {
		hi = maxSMTChar
	}
	if lo > hi {
		return "re.none"
	}
	if lo == hi {
		return "(str.to_re \"" + smtChar(lo) + "\")"
	}
	return "(re.range \"" + smtChar(lo) + "\" \"" + smtChar(hi) + "\")"
}

func reUnion(xs []string) string {
	switch len(xs) {
	case 0:
		return "re.none"
	case 1:
		return xs[0]
	}
	return "(re.union " + strings.Join(xs, " ") + ")"
}

func reConcat(xs []string) string {
	switch len(xs) {
	case 0:
		return "(str.to_re \"\")"
	case 1:
		return xs[0]
	}
	return "(re.++ " + strings.Join(xs, " ") + ")"
}

// reglanOf compiles a regexp/syntax tree (no anchors inside) to a RegLan term.
func reglanOf(re *syntax.Regexp) (string, error) {
	switch re.Op {
	case syntax.OpEmptyMatch:
		return "(str.to_re \"\")", nil
	case syntax.OpNoMatch:
		return "re.none", nil
	case syntax.OpLiteral:
		if re.Flags&syntax.FoldCase != 0 {
			var parts []string
			for _, r := range re.Rune {
				alts := []string{reRange(r, r)}
				if r >= 'a' && r <= 'z' {
					alts = append(alts, reRange(r-32, r-32))
				} else if r >= 'A' && r <= 'Z' {
					alts = append(alts, reRange(r+32, r+32))
				}
				parts = append(parts, reUnion(alts))
			}
			return reConcat(parts), nil
		}
		return "(str.to_re " + smtStringLit(string(re.Rune)) + ")", nil
	case syntax.OpCharClass:
		var alts []string
		for i := 0; i+1 < len(re.Rune); i += 2 {
			alts = append(alts, reRange(re.Rune[i], re.Rune[i+1]))
		}
		return reUnion(alts), nil
	case syntax.OpAnyCharNotNL:
		return "(re.diff re.allchar (str.to_re \"\\u{a}\"))", nil
	case syntax.OpAnyChar:
		return "re.allchar", nil
	case syntax.OpCapture:
		return reglanOf(re.Sub[0])
	case syntax.OpStar, syntax.OpPlus, syntax.OpQuest:
		s, err := reglanOf(re.Sub[0])
		if err != nil {
			return "", err
		}
		switch re.Op {
		case syntax.OpStar:
			return "(re.* " + s + ")", nil
		case syntax.OpPlus:
			return "(re.+ " + s + ")", nil
		}
		return "(re.opt " + s + ")", nil
	case syntax.OpRepeat:
		s, err := reglanOf(re.Sub[0])
		if err != nil {
			return "", err
		}
		if re.Max < 0 {
			return fmt.Sprintf("(re.++ ((_ re.^ %d) %s) (re.* %s))", re.Min, s, s), nil
		}
		return fmt.Sprintf("((_ re.loop %d %d) %s)", re.Min, re.Max, s), nil
	case syntax.OpConcat:
		var parts []string
		for _, sub := range re.Sub {
			s, err := reglanOf(sub)
			if err != nil {
				return "", err
			}
			parts = append(parts, s)
		}
		return reConcat(parts), nil
	case syntax.OpAlternate:
		var parts []string
		for _, sub := range re.Sub {
			s, err := reglanOf(sub)
			if err != nil {
				return "", err
			}
			parts = append(parts, s)
		}
		return reUnion(parts), nil
	case syntax.OpBeginText, syntax.OpEndText, syntax.OpBeginLine, syntax.OpEndLine, syntax.OpWordBoundary, syntax.OpNoWordBoundary:
		return "", fmt.Errorf("anchor %v inside the pattern is not supported by the RegLan compiler", re.Op)
	}
	return "", fmt.Errorf("unsupported regex op %v", re.Op)
}

// searchLang: language of subject strings in which the pattern finds a match
// (regexp.MatchString semantics): anchors ^ / $ are honoured at the ends of the
// top-level concatenation (also `(?:^|x)`-style alternatives at the very start/end
// of an alternation branch are handled by distributing over the branches).
func searchLang(re *syntax.Regexp) (string, error) {
	re = stripCaptures(re)
	if re.Op == syntax.OpAlternate {
		var parts []string
		for _, sub := range re.Sub {
			s, err := searchLang(sub)
			if err != nil {
				return "", err
			}
			parts = append(parts, s)
		}
		return reUnion(parts), nil
	}
	elems := []*syntax.Regexp{re}
	if re.Op == syntax.OpConcat {
		elems = re.Sub
	}
	beg, end := false, false
	if len(elems) > 0 && elems[0].Op == syntax.OpBeginText {
		beg = true
		elems = elems[1:]
	}
	if len(elems) > 0 && elems[len(elems)-1].Op == syntax.OpEndText {
		end = true
		elems = elems[:len(elems)-1]
	}
	// a leading element of the form (?:^|X) or trailing (?:X|$): distribute
	if len(elems) > 0 && elems[0].Op == syntax.OpAlternate && hasAnchor(elems[0]) {
		var parts []string
		for _, alt := range elems[0].Sub {
			n := &syntax.Regexp{Op: syntax.OpConcat, Sub: append([]*syntax.Regexp{alt}, elems[1:]...)}
			if beg {
				n.Sub = append([]*syntax.Regexp{{Op: syntax.OpBeginText}}, n.Sub...)
			}
			if end {
				n.Sub = append(n.Sub, &syntax.Regexp{Op: syntax.OpEndText})
			}
			s, err := searchLang(flatten(n))
			if err != nil {
				return "", err
			}
			parts = append(parts, s)
		}
		return reUnion(parts), nil
	}
	if n := len(elems); n > 0 && elems[n-1].Op == syntax.OpAlternate && hasAnchor(elems[n-1]) {
		var parts []string
		for _, alt := range elems[n-1].Sub {
			m := &syntax.Regexp{Op: syntax.OpConcat, Sub: append(append([]*syntax.Regexp{}, elems[:n-1]...), alt)}
			if beg {
				m.Sub = append([]*syntax.Regexp{{Op: syntax.OpBeginText}}, m.Sub...)
			}
			if end {
				m.Sub = append(m.Sub, &syntax.Regexp{Op: syntax.OpEndText})
			}
			s, err := searchLang(flatten(m))
			if err != nil {
				return "", err
			}
			parts = append(parts, s)
		}
		return reUnion(parts), nil
	}
	var parts []string
	if !beg {
		parts = append(parts, "re.all")
	}
	for _, e := range elems {
		s, err := reglanOf(e)
		if err != nil {
			return "", err
		}
		parts = append(parts, s)
	}
	if !end {
		parts = append(parts, "re.all")
	}
	return reConcat(parts), nil
}

func hasAnchor(re *syntax.Regexp) bool {
	if re.Op == syntax.OpBeginText || re.Op == syntax.OpEndText {
		return true
	}
	for _, s := range re.Sub {
		if hasAnchor(s) {
			return true
		}
	}
	return false
}

func stripCaptures(re *syntax.Regexp) *syntax.Regexp {
	if re.Op == syntax.OpCapture {
		return stripCaptures(re.Sub[0])
	}
	if len(re.Sub) == 0 {
		return re
	}
	n := *re
	n.Sub = make([]*syntax.Regexp, len(re.Sub))
	for i, s := range re.Sub {
		n.Sub[i] = stripCaptures(s)
	}
	return flatten(&n)
}

func flatten(re *syntax.Regexp) *syntax.Regexp {
	if re.Op != syntax.OpConcat {
		return re
	}
	n := *re
	n.Sub = nil
	for _, s := range re.Sub {
		if s.Op == syntax.OpConcat {
			n.Sub = append(n.Sub, flatten(s).Sub...)
		} else if s.Op == syntax.OpEmptyMatch {
			continue
		} else {
			n.Sub = append(n.Sub, s)
		}
	}
	return &n
}

// fullLang: whole-string language of the pattern, anchors at the ends dropped.
func fullLang(re *syntax.Regexp) (string, error) {
	re = stripCaptures(re)
	elems := []*syntax.Regexp{re}
	if re.Op == syntax.OpConcat {
		elems = re.Sub
	}
	for len(elems) > 0 && elems[0].Op == syntax.OpBeginText {
		elems = elems[1:]
	}
	for len(elems) > 0 && elems[len(elems)-1].Op == syntax.OpEndText {
		elems = elems[:len(elems)-1]
	}
	var parts []string
	for _, e := range elems {
		s, err := reglanOf(e)
		if err != nil {
			return "", err
		}
		parts = append(parts, s)
	}
	return reConcat(parts), nil
}

func findGroup(re *syntax.Regexp, k int) *syntax.Regexp {
	if re.Op == syntax.OpCapture && re.Cap == k {
		return re.Sub[0]
	}
	for _, s := range re.Sub {
		if g := findGroup(s, k); g != nil {
			return g
		}
	}
	return nil
}

// ---- lemma language ----------------------------------------------------------------
//   empty(X) | subset(X, Y) | disjoint(X, Y [, D]) | equal(X, Y)
//   X ::= match(NAME|`lit`) | full(NAME|`lit`) | group(NAME, k) | and(X..) | or(X..) | not(X) | lines

type regSet struct {
	term string
}

func (w *World) patternArg(e ast.Expr) (string, error) {
	switch x := e.(type) {
	case *ast.BasicLit:
		if x.Kind == token.STRING {
			return strconv.Unquote(x.Value)
		}
	case *ast.SelectorExpr:
		name := exprString(x)
		if lit, ok := w.regexByName[name]; ok {
			return lit, nil
		}
		return "", fmt.Errorf("no package-level regex variable %s with a literal pattern in the current source", name)
	case *ast.Ident:
		if lit, ok := w.regexByName[x.Name]; ok {
			return lit, nil
		}
	case *ast.CallExpr:
		// local(pkg.Func, var): pattern of a function-local regexp.MustCompile
		if id, ok := x.Fun.(*ast.Ident); ok && id.Name == "local" && len(x.Args) == 2 {
			key := exprString(x.Args[0]) + ":" + exprString(x.Args[1])
			if lit, ok := w.localRegex[key]; ok {
				return lit, nil
			}
			return "", fmt.Errorf("no local regex %s in the current source", key)
		}
	}
	return "", fmt.Errorf("bad pattern argument %s", exprString(e))
}

func (w *World) regSetOf(e ast.Expr) (string, error) {
	switch x := e.(type) {
	case *ast.Ident:
		switch x.Name {
		case "lines":
			return "(re.* (re.diff re.allchar (str.to_re \"\\u{a}\")))", nil
		case "all":
			return "re.all", nil
		}
	case *ast.CallExpr:
		fn, _ := x.Fun.(*ast.Ident)
		if fn == nil {
			break
		}
		switch fn.Name {
		case "match", "full", "group":
			lit, err := w.patternArg(x.Args[0])
			if err != nil {
				return "", err
			}
			re, err := syntax.Parse(lit, syntax.Perl)
			if err != nil {
				return "", err
			}
			switch fn.Name {
			case "match":
				return searchLang(re)
			case "full":
				return fullLang(re)
			default:
				bl, ok := x.Args[1].(*ast.BasicLit)
				if !ok {
					return "", fmt.Errorf("group index must be a literal")
				}
				k, _ := strconv.Atoi(bl.Value)
				g := findGroup(re, k)
				if g == nil {
					return "", fmt.Errorf("pattern %q has no group %d", lit, k)
				}
				return fullLang(g)
			}
		case "and", "or":
			var parts []string
			for _, a := range x.Args {
				s, err := w.regSetOf(a)
				if err != nil {
					return "", err
				}
				parts = append(parts, s)
			}
			if fn.Name == "and" {
				return "(re.inter " + strings.Join(parts, " ") + ")", nil
			}
			return reUnion(parts), nil
		case "not":
			s, err := w.regSetOf(x.Args[0])
			if err != nil {
				return "", err
			}
			return "(re.comp " + s + ")", nil
		case "cat":
			var parts []string
			for _, a := range x.Args {
				s, err := w.regSetOf(a)
				if err != nil {
					return "", err
				}
				parts = append(parts, s)
			}
			return reConcat(parts), nil
		}
	}
	return "", fmt.Errorf("bad set expression %s", exprString(e))
}

// regLemmaQuery: returns the RegLan term whose emptiness is the lemma.
func (w *World) regLemmaTerm(text string) (string, error) {
	e, err := parser.ParseExpr(text)
	if err != nil {
		return "", err
	}
	call, ok := e.(*ast.CallExpr)
	if !ok {
		return "", fmt.Errorf("lemma must be empty/subset/disjoint/equal(...)")
	}
	fn, _ := call.Fun.(*ast.Ident)
	if fn == nil {
		return "", fmt.Errorf("bad lemma")
	}
	sets := make([]string, len(call.Args))
	for i, a := range call.Args {
		s, err := w.regSetOf(a)
		if err != nil {
			return "", err
		}
		sets[i] = s
	}
	switch fn.Name {
	case "empty":
		return sets[0], nil
	case "subset":
		t := "(re.inter " + sets[0] + " (re.comp " + sets[1] + "))"
		if len(sets) == 3 {
			t = "(re.inter " + sets[2] + " " + sets[0] + " (re.comp " + sets[1] + "))"
		}
		return t, nil
	case "disjoint":
		return "(re.inter " + strings.Join(sets, " ") + ")", nil
	case "equal":
		a, b := sets[0], sets[1]
		t := "(re.union (re.inter " + a + " (re.comp " + b + ")) (re.inter " + b + " (re.comp " + a + ")))"
		if len(sets) == 3 {
			t = "(re.inter " + sets[2] + " " + t + ")"
		}
		return t, nil
	}
	return "", fmt.Errorf("unknown lemma form %s", fn.Name)
}

// solveRegEmpty decides emptiness of a RegLan term; on failure returns a witness.
func solveRegEmpty(term string, timeout time.Duration) (SolverResult, string) {
	q := "(set-option :produce-models true)\n(set-logic QF_S)\n(declare-const s String)\n(assert (str.in_re s " + term + "))\n(check-sat)\n(get-value (s))\n"
	r := solve(q, seqSolvers, timeout)
	wit := ""
	if r.Status == "sat" {
		// ((s "..."))
		if i := strings.Index(r.Model, "\""); i >= 0 {
			if j := strings.LastIndex(r.Model, "\""); j > i {
				wit = unescapeSMT(r.Model[i+1 : j])
			}
		}
	}
	return r, wit
}

func unescapeSMT(s string) string {
	var b strings.Builder
	for i := 0; i < len(s); i++ {
		if s[i] == '\\' && i+2 < len(s) && s[i+1] == 'u' && s[i+2] == '{' {
			j := strings.IndexByte(s[i:], '}')
			if j > 0 {
				if n, err := strconv.ParseInt(s[i+3:i+j], 16, 32); err == nil {
					b.WriteRune(rune(n))
					i += j
					continue
				}
			}
		}
		if s[i] == '"' && i+1 < len(s) && s[i+1] == '"' {
			b.WriteByte('"')
			i++
			continue
		}
		b.WriteByte(s[i])
	}
	return b.String()
}

func (r *Run) regLemmaObligation(name string, tags []string, text, descr string) *Obligation {
	ob := &Obligation{Name: name, Func: "reglemma", Kind: "reglan", Tags: tags, Descr: descr + ": " + text}
	w := r.w
	ob.Run = func(ob *Obligation, timeout time.Duration) {
		term, err := w.regLemmaTerm(text)
		if err != nil {
			ob.Status = "failed"
			ob.FailStatus = "error"
			ob.Detail = "cannot compile lemma: " + err.Error()
			return
		}
		res, wit := solveRegEmpty(term, timeout)
		ob.Ms = res.Ms
		ob.Solver = res.Solver
		if res.Status == "unsat" {
			ob.Status = "discharged"
			return
		}
		ob.Status = "failed"
		ob.FailStatus = res.Status
		ob.Detail = fmt.Sprintf("%s (%s, %d ms)", res.Status, res.Solver, res.Ms)
		if res.Status == "sat" {
			ob.Witness = wit
			ob.WitnessNote = "shortest-witness string returned by the solver for the non-empty regular language"
			ob.Detail += fmt.Sprintf("; witness %q", wit)
		} else {
			ob.Detail += "\n" + strings.TrimSpace(res.Output)
		}
		ob.FailText = "(str.in_re s " + term + ")"
	}
	return ob
}
