package main

// Effect / frame analysis over the static call graph of /repo (DESIGN 2.4).
// Conservative: closures count towards the enclosing function; interface methods
// of repo interfaces resolve to every repo implementation (CHA).

import (
	"fmt"
	"go/ast"
	"go/token"
	"go/types"
	"sort"
	"strings"
)

type EffectSite struct {
	Class string
	What  string
	Pos   string
}

type FuncNode struct {
	Key     string // pkgpath::Recv.Name
	Short   string
	Site    *FuncSite
	Direct  []EffectSite
	Callees map[string]bool
	Reach   map[string][]EffectSite // class -> sites (after fixpoint)
}

type CallGraph struct {
	Nodes map[string]*FuncNode
}

var primitiveEffects = map[string]string{
	"os.WriteFile": "fswrite", "os.Create": "fswrite", "os.CreateTemp": "fswrite", "os.Remove": "fswrite", "os.RemoveAll": "fswrite",
	"os.Rename": "fswrite", "os.Mkdir": "fswrite", "os.MkdirAll": "fswrite", "os.MkdirTemp": "fswrite", "os.OpenFile": "fswrite",
	"os.Chmod": "fswrite", "os.Chown": "fswrite", "os.Truncate": "fswrite", "os.Symlink": "fswrite", "os.Link": "fswrite", "os.Chtimes": "fswrite",
	"io/ioutil.WriteFile": "fswrite", "io/ioutil.TempFile": "fswrite", "io/ioutil.TempDir": "fswrite",
	"os.File.Write": "fswrite", "os.File.WriteString": "fswrite", "os.File.WriteAt": "fswrite", "os.File.Truncate": "fswrite", "os.File.Chmod": "fswrite", "os.File.ReadFrom": "fswrite",
	"os.Exit": "exit",
	// only used to decide which functions may be RUN on enumerated arguments (rtc.go)
	"github.com/rs/zerolog.Logger.Fatal": "fatal", "github.com/rs/zerolog.Logger.Panic": "fatal",
	"os.ReadFile": "fsread", "os.Open": "fsread", "os.Stat": "fsread", "os.Lstat": "fsread", "os.ReadDir": "fsread",
	"path/filepath.WalkDir": "fsread", "path/filepath.Walk": "fsread", "path/filepath.Glob": "fsread", "io/ioutil.ReadFile": "fsread",
	// readers that can hand back a part of the input without an error (C17)
	"bufio.Reader.ReadLine": "partialread", "io.LimitReader": "partialread", "io.CopyN": "partialread", "io.ReadAtLeast": "partialread",
	"io.ReadFull": "partialread", "os.File.Read": "partialread", "os.File.ReadAt": "partialread", "bufio.Reader.Read": "partialread",
	"bufio.Reader.ReadSlice": "partialread", "bufio.Reader.Peek": "partialread", "bytes.Buffer.Next": "partialread", "bytes.Buffer.Truncate": "partialread",
	"bufio.Scanner.Buffer": "scanbuffer",
	"time.Now": "time", "time.Since": "time", "time.Until": "time",
	"os.Getpid": "pid", "os.Getppid": "pid", "os.Hostname": "pid",
	"os.Getenv": "env", "os.LookupEnv": "env", "os.Environ": "env",
	"os/exec.Command": "exec", "os/exec.CommandContext": "exec",
	"github.com/creativeprojects/go-selfupdate.UpdateTo": "selfupdate", "github.com/creativeprojects/go-selfupdate.UpdateSelf": "selfupdate", "github.com/creativeprojects/go-selfupdate.UpdateCommand": "selfupdate",
	"github.com/creativeprojects/go-selfupdate.Updater.UpdateTo": "selfupdate", "github.com/creativeprojects/go-selfupdate.Updater.UpdateSelf": "selfupdate", "github.com/creativeprojects/go-selfupdate.Updater.UpdateCommand": "selfupdate",
}

var effectPkgPrefixes = map[string]string{
	"math/rand": "rand", "crypto/rand": "rand", "github.com/google/uuid": "rand",
	"net": "net", "net/http": "net",
	"github.com/creativeprojects/go-selfupdate": "net",
}

func (w *World) isRepoPkg(path string) bool {
	return strings.HasPrefix(path, "github.com/coreruleset/crs-toolchain/v2")
}

func (w *World) buildCallGraph() *CallGraph {
	cg := &CallGraph{Nodes: map[string]*FuncNode{}}
	// implementations of repo interfaces (method name -> implementing function keys)
	impls := map[string][]string{}
	for key, site := range w.funcs {
		if site.decl == nil || site.decl.Recv == nil {
			continue
		}
		impls[site.decl.Name.Name] = append(impls[site.decl.Name.Name], key)
	}
	for key, site := range w.funcs {
		if site.decl == nil {
			continue // closures are folded into their enclosing function
		}
		fname := site.pkg.Fset.Position(site.decl.Pos()).Filename
		if isVerifFile(fname) {
			continue
		}
		n := &FuncNode{Key: key, Short: pkgShort(site.pkg.PkgPath) + "." + site.name, Site: site, Callees: map[string]bool{}}
		cg.Nodes[key] = n
		info := site.pkg.TypesInfo
		pos := func(x ast.Node) string {
			p := site.pkg.Fset.Position(x.Pos())
			return fmt.Sprintf("%s:%d", shortFile(p.Filename), p.Line)
		}
		drained := sortedDrains(info, site.decl.Body)
		collected := collectorRanges(info, site.decl.Body)
		// map iterators (maps.Keys / Values / All) handed straight to slices.Sorted* lose their order
		sortedIter := map[ast.Node]bool{}
		ast.Inspect(site.decl.Body, func(x ast.Node) bool {
			switch s := x.(type) {
			case *ast.GoStmt:
				n.Direct = append(n.Direct, EffectSite{"goroutine", "go statement", pos(s)})
			case *ast.SelectStmt:
				n.Direct = append(n.Direct, EffectSite{"goroutine", "select statement", pos(s)})
			case *ast.RangeStmt:
				if t := info.TypeOf(s.X); t != nil {
					if _, ok := t.Underlying().(*types.Map); ok {
						if collected[s] {
							// the function only collects keys/values into the slice it returns: what
							// happens to the order is the caller's business (census: the callers)
							n.Direct = append(n.Direct, EffectSite{"maprange-collect", "range over map " + exprString(s.X) + " (collected into the returned slice)", pos(s)})
						} else if drained[s] {
							// keys/values are only collected into a slice that is sorted (total order on
							// a basic type) before anything else looks at it: the iteration order is gone
							n.Direct = append(n.Direct, EffectSite{"maprange-sorted", "range over map " + exprString(s.X) + " (drained into a slice and sorted)", pos(s)})
						} else {
							n.Direct = append(n.Direct, EffectSite{"maprange", "range over map " + exprString(s.X), pos(s)})
						}
					}
				}
			case *ast.SelectorExpr:
				// os.Stdout used as a value (handed to a writer, a logger, ...): census stdoutref
				if id, ok := s.X.(*ast.Ident); ok && s.Sel.Name == "Stdout" {
					if pn, ok := info.Uses[id].(*types.PkgName); ok && pn.Imported().Path() == "os" {
						n.Direct = append(n.Direct, EffectSite{"stdoutref", "os.Stdout", pos(s)})
					}
				}
			case *ast.CallExpr:
				if id, ok := s.Fun.(*ast.Ident); ok && id.Name == "recover" {
					if _, isBuiltin := info.Uses[id].(*types.Builtin); isBuiltin {
						n.Direct = append(n.Direct, EffectSite{"recover", "recover()", pos(s)})
					}
				}
				var fn *types.Func
				var recv ast.Expr
				switch f := s.Fun.(type) {
				case *ast.Ident:
					fn, _ = info.Uses[f].(*types.Func)
				case *ast.SelectorExpr:
					if sel, ok := info.Selections[f]; ok {
						fn, _ = sel.Obj().(*types.Func)
						recv = f.X
					} else {
						fn, _ = info.Uses[f.Sel].(*types.Func)
					}
				}
				if fn == nil || fn.Pkg() == nil {
					return true
				}
				pkgPath, name := funcKey(fn)
				if w.isRepoPkg(pkgPath) {
					sig := fn.Type().(*types.Signature)
					if sig.Recv() != nil {
						if _, isIface := sig.Recv().Type().Underlying().(*types.Interface); isIface {
							for _, k := range impls[fn.Name()] {
								n.Callees[k] = true
							}
							return true
						}
					}
					n.Callees[pkgPath+"::"+name] = true
					return true
				}
				full := pkgPath + "." + name
				if pkgPath == "slices" && (name == "Sorted" || name == "SortedFunc" || name == "SortedStableFunc") && len(s.Args) > 0 {
					if inner, ok := s.Args[0].(*ast.CallExpr); ok {
						sortedIter[inner] = true
					}
				}
				if pkgPath == "maps" && (name == "Keys" || name == "Values" || name == "All") {
					if sortedIter[s] {
						n.Direct = append(n.Direct, EffectSite{"maprange-sorted", "maps." + name + " (sorted at once)", pos(s)})
					} else {
						n.Direct = append(n.Direct, EffectSite{"maprange", "maps." + name + " (iteration order of a map)", pos(s)})
					}
				}
				if cls, ok := primitiveEffects[full]; ok {
					// writes to the standard streams are not file-system effects
					if cls == "fswrite" && recv != nil {
						r := exprString(recv)
						if r == "os.Stdout" || r == "os.Stderr" {
							n.Direct = append(n.Direct, EffectSite{"stdout", full, pos(s)})
							return true
						}
					}
					n.Direct = append(n.Direct, EffectSite{cls, full, pos(s)})
					return true
				}
				for pfx, cls := range effectPkgPrefixes {
					if pkgPath == pfx || strings.HasPrefix(pkgPath, pfx+"/") {
						n.Direct = append(n.Direct, EffectSite{cls, full, pos(s)})
					}
				}
				if pkgPath == "fmt" && (name == "Println" || name == "Printf" || name == "Print") {
					n.Direct = append(n.Direct, EffectSite{"stdout", full, pos(s)})
				}
			}
			return true
		})
	}
	// fixpoint
	for _, n := range cg.Nodes {
		n.Reach = map[string][]EffectSite{}
		for _, e := range n.Direct {
			n.Reach[e.Class] = append(n.Reach[e.Class], EffectSite{e.Class, n.Short + ": " + e.What, e.Pos})
		}
	}
	changed := true
	for changed {
		changed = false
		for _, n := range cg.Nodes {
			for ck := range n.Callees {
				c := cg.Nodes[ck]
				if c == nil {
					continue
				}
				for cls, sites := range c.Reach {
					have := map[string]bool{}
					for _, s := range n.Reach[cls] {
						have[s.What+s.Pos] = true
					}
					for _, s := range sites {
						if !have[s.What+s.Pos] {
							n.Reach[cls] = append(n.Reach[cls], s)
							changed = true
						}
					}
				}
			}
		}
	}
	return cg
}

func (r *Run) callGraph() *CallGraph { return r.w.callGraph() }

func (w *World) callGraph() *CallGraph {
	if w.cg == nil {
		w.cg = w.buildCallGraph()
	}
	return w.cg
}

// reachesEffect: does the repo function (pkgpath::name) reach an effect of this class?
func (w *World) reachesEffect(key, class string) bool {
	n := w.callGraph().Nodes[key]
	return n != nil && len(n.Reach[class]) > 0
}

// resolveFunc: "pkgname.Recv.Name" or "pkgname.Name" -> node
func (r *Run) resolveFunc(name string) *FuncNode {
	cg := r.callGraph()
	for _, n := range cg.Nodes {
		if n.Site.pkg.Name+"."+n.Site.name == name || n.Short == name {
			return n
		}
	}
	return nil
}

func init() {
	directiveHandlers["no-effect"] = dirNoEffect
	directiveHandlers["only-writers"] = dirOnlyWriters
	directiveHandlers["census"] = dirCensus
	directiveHandlers["write-before-read"] = dirWriteBeforeRead
	directiveHandlers["callers-of"] = dirCallersOf
}

// callers-of <func> <caller>... : the functions of the repository that call <func> directly
// are exactly among the listed ones (a new call site is a change of behaviour that wants a look)
func dirCallersOf(r *Run, d *Directive) []*Obligation {
	f := strings.Fields(d.Args)
	if len(f) < 1 {
		return dirFail(d, "callers-of", "needs: func caller...")
	}
	target := r.resolveFunc(f[0])
	if target == nil {
		return dirFail(d, "callers-of:"+f[0], "function "+f[0]+" not found in the current source")
	}
	allowed := map[string]bool{}
	for _, a := range f[1:] {
		allowed[a] = true
	}
	ob := &Obligation{Name: fmt.Sprintf("%s.effects/callers-of:%s", pkgShort(d.Pkg), f[0]), Func: target.Short, Kind: "effects", Tags: d.Tags,
		Descr: fmt.Sprintf("%s is called only from: %s", f[0], strings.Join(f[1:], " ")), Solver: "callgraph", Status: "discharged"}
	var bad, seen []string
	for _, n := range r.callGraph().Nodes {
		if n.Callees[target.Key] {
			name := n.Site.pkg.Name + "." + n.Site.name
			seen = append(seen, name)
			if !allowed[name] {
				bad = append(bad, name)
			}
		}
	}
	sort.Strings(seen)
	ob.Descr += " [found: " + strings.Join(seen, " ") + "]"
	if len(bad) > 0 {
		sort.Strings(bad)
		ob.Status = "failed"
		ob.FailStatus = "unjustified"
		ob.Detail = "called from functions that are not listed: " + strings.Join(bad, ", ")
	}
	return []*Obligation{ob}
}

func dirFail(d *Directive, name, msg string) []*Obligation {
	return []*Obligation{{Name: pkgShort(d.Pkg) + ".effects/" + name, Func: "effects", Kind: "effects", Tags: d.Tags, Status: "failed", FailStatus: "error", Detail: msg, Descr: d.Kind + " " + d.Args}}
}

// no-effect <func> <class>...   : no primitive of these classes is reachable from func
func dirNoEffect(r *Run, d *Directive) []*Obligation {
	f := strings.Fields(d.Args)
	if len(f) < 2 {
		return dirFail(d, "no-effect", "needs: func class...")
	}
	n := r.resolveFunc(f[0])
	if n == nil {
		return dirFail(d, "no-effect:"+f[0], "function "+f[0]+" not found in the current source")
	}
	var out []*Obligation
	for _, cls := range f[1:] {
		ob := &Obligation{Name: fmt.Sprintf("%s.effects/no-%s:%s", pkgShort(d.Pkg), cls, f[0]), Func: n.Short, Kind: "effects", Tags: d.Tags,
			Descr: fmt.Sprintf("no %s primitive is reachable in the call graph from %s", cls, f[0]), Solver: "callgraph"}
		if sites := n.Reach[cls]; len(sites) > 0 {
			ob.Status = "failed"
			ob.FailStatus = "reachable"
			var ls []string
			for _, s := range sites {
				ls = append(ls, s.What+" at "+s.Pos)
			}
			sort.Strings(ls)
			ob.Detail = "reachable " + cls + " effects: " + strings.Join(ls, "; ")
		} else {
			ob.Status = "discharged"
		}
		out = append(out, ob)
	}
	return out
}

// only-writers <entry> <writer func>... : every fswrite primitive reachable from entry
// sits textually inside one of the listed functions (which carry path contracts).
func dirOnlyWriters(r *Run, d *Directive) []*Obligation {
	f := strings.Fields(d.Args)
	if len(f) < 2 {
		return dirFail(d, "only-writers", "needs: entry writer...")
	}
	n := r.resolveFunc(f[0])
	if n == nil {
		return dirFail(d, "only-writers:"+f[0], "function "+f[0]+" not found in the current source")
	}
	allowed := map[string]bool{}
	for _, a := range f[1:] {
		an := r.resolveFunc(a)
		if an == nil {
			return dirFail(d, "only-writers:"+f[0], "writer function "+a+" not found")
		}
		allowed[an.Short] = true
	}
	ob := &Obligation{Name: fmt.Sprintf("%s.effects/only-writers:%s", pkgShort(d.Pkg), f[0]), Func: n.Short, Kind: "effects", Tags: d.Tags,
		Descr: fmt.Sprintf("every file-system write reachable from %s happens inside %s", f[0], strings.Join(f[1:], ", ")), Solver: "callgraph", Status: "discharged"}
	var bad []string
	for _, s := range n.Reach["fswrite"] {
		owner := strings.SplitN(s.What, ": ", 2)[0]
		if !allowed[owner] {
			bad = append(bad, s.What+" at "+s.Pos)
		}
	}
	for _, s := range n.Reach["selfupdate"] {
		bad = append(bad, s.What+" at "+s.Pos)
	}
	if len(bad) > 0 {
		sort.Strings(bad)
		ob.Status = "failed"
		ob.FailStatus = "reachable"
		ob.Detail = "file-system writes outside the declared writers: " + strings.Join(bad, "; ")
	}
	return []*Obligation{ob}
}

// census <kind> <allowed func>... : every occurrence of <kind> (maprange | scanloop |
// goroutine) in non-test code is inside one of the listed functions.
func dirCensus(r *Run, d *Directive) []*Obligation {
	f := strings.Fields(d.Args)
	if len(f) < 1 {
		return dirFail(d, "census", "needs: kind func...")
	}
	kind := f[0]
	allowed := map[string]bool{}
	for _, a := range f[1:] {
		allowed[a] = true
	}
	cg := r.callGraph()
	ob := &Obligation{Name: fmt.Sprintf("%s.effects/census:%s", pkgShort(d.Pkg), kind), Func: "census", Kind: "effects", Tags: d.Tags,
		Descr: fmt.Sprintf("every %s in non-test code is in a function that carries its justification: %s", kind, strings.Join(f[1:], " ")), Solver: "ast", Status: "discharged"}
	var bad, seen []string
	for _, n := range cg.Nodes {
		name := n.Site.pkg.Name + "." + n.Site.name
		count := 0
		switch kind {
		case "maprange", "goroutine", "stdoutref":
			for _, e := range n.Direct {
				if e.Class == kind {
					count++
					if !allowed[name] {
						bad = append(bad, name+": "+e.What+" at "+e.Pos)
					}
				}
			}
		case "scanloop":
			ast.Inspect(n.Site.decl.Body, func(x ast.Node) bool {
				fs, ok := x.(*ast.ForStmt)
				if !ok || fs.Cond == nil {
					return true
				}
				if c, ok := fs.Cond.(*ast.CallExpr); ok {
					if se, ok := c.Fun.(*ast.SelectorExpr); ok && se.Sel.Name == "Scan" {
						if t := n.Site.pkg.TypesInfo.TypeOf(se.X); t != nil && isNamed(t, "bufio", "Scanner") {
							count++
							p := n.Site.pkg.Fset.Position(fs.Pos())
							if !allowed[name] {
								bad = append(bad, fmt.Sprintf("%s: scan loop at %s:%d", name, shortFile(p.Filename), p.Line))
							}
						}
					}
				}
				return true
			})
		}
		if kind == "maprange" {
			// a collector (map range whose only effect is the returned slice) is as good or bad as
			// its callers
			for _, e := range n.Direct {
				if e.Class != "maprange-collect" {
					continue
				}
				count++
				if allowed[name] {
					continue
				}
				for _, c := range cg.Nodes {
					if c.Callees[n.Key] {
						cname := c.Site.pkg.Name + "." + c.Site.name
						if !allowed[cname] {
							bad = append(bad, cname+": calls the map collector "+name+" ("+e.What+" at "+e.Pos+")")
						}
					}
				}
			}
		}
		if count > 0 {
			seen = append(seen, fmt.Sprintf("%s(%d)", name, count))
		}
	}
	sort.Strings(seen)
	ob.Descr += " [found: " + strings.Join(seen, " ") + "]"
	// a listed function that no longer contains the construct is fine; one that is not
	// under the required contract is reported by the contract-attached obligation.
	if len(bad) > 0 {
		sort.Strings(bad)
		ob.Status = "failed"
		ob.FailStatus = "unjustified"
		ob.Detail = "not covered by a justification: " + strings.Join(bad, "; ")
	}
	return []*Obligation{ob}
}

// ---- write-before-read of package-level state (C08) ---------------------------------
//
// write-before-read <entry>: along every path through <entry> (calls into /repo are
// followed), each package-level variable of /repo that is written anywhere in the code
// reachable from <entry> is (wholly) assigned before it is read. Hence nothing a previous
// execution of <entry> left in package-level state can influence this one.

type wbrState map[string]bool // definitely assigned globals

func (s wbrState) clone() wbrState {
	n := wbrState{}
	for k := range s {
		n[k] = true
	}
	return n
}

func intersect(a, b wbrState) wbrState {
	n := wbrState{}
	for k := range a {
		if b[k] {
			n[k] = true
		}
	}
	return n
}

type wbrCtx struct {
	r        *Run
	tracked  map[string]bool // objKey of globals written in reachable code
	viol     map[string]bool
	visiting map[string]bool
	memo     map[string]wbrState
}

func dirWriteBeforeRead(r *Run, d *Directive) []*Obligation {
	f := strings.Fields(d.Args)
	if len(f) < 1 {
		return dirFail(d, "write-before-read", "needs: entry")
	}
	n := r.resolveFunc(f[0])
	if n == nil {
		return dirFail(d, "write-before-read:"+f[0], "function "+f[0]+" not found in the current source")
	}
	cg := r.callGraph()
	// reachable set
	reach := map[string]bool{}
	var dfs func(k string)
	dfs = func(k string) {
		if reach[k] || cg.Nodes[k] == nil {
			return
		}
		reach[k] = true
		for c := range cg.Nodes[k].Callees {
			dfs(c)
		}
	}
	dfs(n.Key)
	c := &wbrCtx{r: r, tracked: map[string]bool{}, viol: map[string]bool{}, visiting: map[string]bool{}, memo: map[string]wbrState{}}
	// tracked globals: written (assigned, field/index assigned, or method with pointer receiver) in reachable code
	for k := range reach {
		nd := cg.Nodes[k]
		info := nd.Site.pkg.TypesInfo
		ast.Inspect(nd.Site.decl.Body, func(x ast.Node) bool {
			switch s := x.(type) {
			case *ast.AssignStmt:
				for _, l := range s.Lhs {
					if g := globalRoot(info, l); g != nil {
						c.tracked[objKey(g)] = true
					}
				}
			case *ast.IncDecStmt:
				if g := globalRoot(info, s.X); g != nil {
					c.tracked[objKey(g)] = true
				}
			case *ast.CallExpr:
				if se, ok := s.Fun.(*ast.SelectorExpr); ok {
					if sel, ok := info.Selections[se]; ok {
						if fn, ok := sel.Obj().(*types.Func); ok {
							sig := fn.Type().(*types.Signature)
							if _, ptr := sig.Recv().Type().(*types.Pointer); ptr {
								if g := globalRoot(info, se.X); g != nil && r.w.isRepoPkg(g.Pkg().Path()) {
									// a pointer-receiver method of a repo type mutates the variable only
									// if its body assigns through the receiver
									if fn.Pkg() != nil && r.w.isRepoPkg(fn.Pkg().Path()) && r.w.methodMutatesReceiver(fn) {
										c.tracked[objKey(g)] = true
									}
								}
							}
						}
					}
				}
			}
			return true
		})
	}
	c.flowFunc(n, wbrState{})
	ob := &Obligation{Name: fmt.Sprintf("%s.effects/write-before-read:%s", pkgShort(d.Pkg), f[0]), Func: n.Short, Kind: "effects", Tags: d.Tags, Solver: "dataflow", Status: "discharged",
		Descr: fmt.Sprintf("package-level state written below %s (%s) is assigned before it is read on every path", f[0], strings.Join(sortedKeys(c.tracked), ", "))}
	if len(c.viol) > 0 {
		ob.Status = "failed"
		ob.FailStatus = "read-before-write"
		ob.Detail = "read before (re)assignment: " + strings.Join(sortedKeys(c.viol), "; ")
	}
	return []*Obligation{ob}
}

func globalRoot(info *types.Info, e ast.Expr) *types.Var {
	for {
		switch x := e.(type) {
		case *ast.Ident:
			if v, ok := info.ObjectOf(x).(*types.Var); ok && v.Pkg() != nil && v.Parent() == v.Pkg().Scope() {
				return v
			}
			return nil
		case *ast.SelectorExpr:
			if id, ok := x.X.(*ast.Ident); ok {
				if _, isPkg := info.Uses[id].(*types.PkgName); isPkg {
					if v, ok := info.Uses[x.Sel].(*types.Var); ok && v.Parent() == v.Pkg().Scope() {
						return v
					}
					return nil
				}
			}
			e = x.X
		case *ast.IndexExpr:
			e = x.X
		case *ast.StarExpr:
			e = x.X
		case *ast.ParenExpr:
			e = x.X
		default:
			return nil
		}
	}
}

func (c *wbrCtx) flowFunc(n *FuncNode, in wbrState) wbrState {
	key := n.Key + "|" + strings.Join(sortedKeys(in), ",")
	if out, ok := c.memo[key]; ok {
		return out
	}
	if c.visiting[n.Key] {
		return in
	}
	c.visiting[n.Key] = true
	out := c.flowStmts(n, n.Site.decl.Body.List, in.clone())
	c.visiting[n.Key] = false
	c.memo[key] = out
	return out
}

func (c *wbrCtx) flowStmts(n *FuncNode, stmts []ast.Stmt, st wbrState) wbrState {
	for _, s := range stmts {
		st = c.flowStmt(n, s, st)
	}
	return st
}

func (c *wbrCtx) flowStmt(n *FuncNode, s ast.Stmt, st wbrState) wbrState {
	info := n.Site.pkg.TypesInfo
	switch x := s.(type) {
	case *ast.AssignStmt:
		for _, e := range x.Rhs {
			st = c.flowExpr(n, e, st)
		}
		for _, l := range x.Lhs {
			if id, ok := l.(*ast.Ident); ok && x.Tok == token.ASSIGN {
				if v, ok := info.ObjectOf(id).(*types.Var); ok && v.Pkg() != nil && v.Parent() == v.Pkg().Scope() && c.tracked[objKey(v)] {
					st[objKey(v)] = true
					continue
				}
			}
			// field / element writes read the container
			if _, isIdent := l.(*ast.Ident); !isIdent {
				st = c.flowExpr(n, l, st)
			}
		}
		return st
	case *ast.ExprStmt:
		return c.flowExpr(n, x.X, st)
	case *ast.IncDecStmt:
		return c.flowExpr(n, x.X, st)
	case *ast.DeclStmt:
		if gd, ok := x.Decl.(*ast.GenDecl); ok {
			for _, sp := range gd.Specs {
				if vs, ok := sp.(*ast.ValueSpec); ok {
					for _, v := range vs.Values {
						st = c.flowExpr(n, v, st)
					}
				}
			}
		}
		return st
	case *ast.ReturnStmt:
		for _, e := range x.Results {
			st = c.flowExpr(n, e, st)
		}
		return st
	case *ast.BlockStmt:
		return c.flowStmts(n, x.List, st)
	case *ast.IfStmt:
		if x.Init != nil {
			st = c.flowStmt(n, x.Init, st)
		}
		st = c.flowExpr(n, x.Cond, st)
		a := c.flowStmts(n, x.Body.List, st.clone())
		b := st.clone()
		if x.Else != nil {
			b = c.flowStmt(n, x.Else, b)
		}
		return intersect(a, b)
	case *ast.ForStmt:
		if x.Init != nil {
			st = c.flowStmt(n, x.Init, st)
		}
		if x.Cond != nil {
			st = c.flowExpr(n, x.Cond, st)
		}
		body := c.flowStmts(n, x.Body.List, st.clone())
		if x.Post != nil {
			body = c.flowStmt(n, x.Post, body)
		}
		return intersect(st, body)
	case *ast.RangeStmt:
		st = c.flowExpr(n, x.X, st)
		body := c.flowStmts(n, x.Body.List, st.clone())
		return intersect(st, body)
	case *ast.SwitchStmt:
		if x.Init != nil {
			st = c.flowStmt(n, x.Init, st)
		}
		if x.Tag != nil {
			st = c.flowExpr(n, x.Tag, st)
		}
		res := st.clone()
		first := true
		hasDefault := false
		for _, cs := range x.Body.List {
			cc := cs.(*ast.CaseClause)
			if cc.List == nil {
				hasDefault = true
			}
			for _, e := range cc.List {
				st = c.flowExpr(n, e, st)
			}
			o := c.flowStmts(n, cc.Body, st.clone())
			if first {
				res = o
				first = false
			} else {
				res = intersect(res, o)
			}
		}
		if !hasDefault {
			res = intersect(res, st)
		}
		return res
	case *ast.DeferStmt:
		return c.flowExpr(n, x.Call, st)
	case *ast.GoStmt:
		return c.flowExpr(n, x.Call, st)
	}
	return st
}

func (c *wbrCtx) flowExpr(n *FuncNode, e ast.Expr, st wbrState) wbrState {
	if e == nil {
		return st
	}
	info := n.Site.pkg.TypesInfo
	pos := func(x ast.Node) string {
		p := n.Site.pkg.Fset.Position(x.Pos())
		return fmt.Sprintf("%s:%d", shortFile(p.Filename), p.Line)
	}
	ast.Inspect(e, func(x ast.Node) bool {
		switch y := x.(type) {
		case *ast.FuncLit:
			// closure body: may run any number of times later (e.g. once per walked file),
			// so it is analysed from the empty state and contributes nothing afterwards
			c.flowStmts(n, y.Body.List, wbrState{})
			return false
		case *ast.Ident:
			if v, ok := info.Uses[y].(*types.Var); ok && v.Pkg() != nil && v.Parent() == v.Pkg().Scope() && c.tracked[objKey(v)] && !st[objKey(v)] {
				c.viol[fmt.Sprintf("%s read at %s (in %s)", objKey(v), pos(y), n.Short)] = true
			}
		case *ast.CallExpr:
			// arguments first
			for _, a := range y.Args {
				st = c.flowExpr(n, a, st)
			}
			var fn *types.Func
			switch f := y.Fun.(type) {
			case *ast.Ident:
				fn, _ = info.Uses[f].(*types.Func)
			case *ast.SelectorExpr:
				st = c.flowExpr(n, f.X, st)
				if sel, ok := info.Selections[f]; ok {
					fn, _ = sel.Obj().(*types.Func)
				} else {
					fn, _ = info.Uses[f.Sel].(*types.Func)
				}
			default:
				st = c.flowExpr(n, y.Fun, st)
			}
			if fn != nil && fn.Pkg() != nil && c.r.w.isRepoPkg(fn.Pkg().Path()) {
				pkgPath, name := funcKey(fn)
				sig := fn.Type().(*types.Signature)
				var targets []*FuncNode
				if sig.Recv() != nil {
					if _, isIface := sig.Recv().Type().Underlying().(*types.Interface); isIface {
						for k, nd := range c.r.callGraph().Nodes {
							if nd.Site.decl.Recv != nil && nd.Site.decl.Name.Name == fn.Name() {
								_ = k
								targets = append(targets, nd)
							}
						}
					}
				}
				if len(targets) == 0 {
					if nd := c.r.callGraph().Nodes[pkgPath+"::"+name]; nd != nil {
						targets = append(targets, nd)
					}
				}
				if len(targets) > 0 {
					var res wbrState
					for i, t := range targets {
						o := c.flowFunc(t, st)
						if i == 0 {
							res = o
						} else {
							res = intersect(res, o)
						}
					}
					st = res.clone()
				}
			}
			return false
		}
		return true
	})
	return st
}

// methodMutatesReceiver: the method body assigns to the receiver or one of its fields.
func (w *World) methodMutatesReceiver(fn *types.Func) bool {
	pkgPath, name := funcKey(fn)
	site := w.funcs[pkgPath+"::"+name]
	if site == nil || site.decl == nil || site.decl.Recv == nil || len(site.decl.Recv.List) == 0 || len(site.decl.Recv.List[0].Names) == 0 {
		return true // unknown: conservative
	}
	recvObj := site.pkg.TypesInfo.Defs[site.decl.Recv.List[0].Names[0]]
	mut := false
	rootIs := func(e ast.Expr) bool {
		for {
			switch x := e.(type) {
			case *ast.Ident:
				return site.pkg.TypesInfo.ObjectOf(x) == recvObj
			case *ast.SelectorExpr:
				e = x.X
			case *ast.IndexExpr:
				e = x.X
			case *ast.StarExpr:
				e = x.X
			case *ast.ParenExpr:
				e = x.X
			default:
				return false
			}
		}
	}
	ast.Inspect(site.decl.Body, func(n ast.Node) bool {
		switch s := n.(type) {
		case *ast.AssignStmt:
			for _, l := range s.Lhs {
				if _, isIdent := l.(*ast.Ident); !isIdent && rootIs(l) {
					mut = true
				}
			}
		case *ast.IncDecStmt:
			if _, isIdent := s.X.(*ast.Ident); !isIdent && rootIs(s.X) {
				mut = true
			}
		}
		return true
	})
	return mut
}


// sortedDrains: the map ranges of a function body whose body does nothing but append (possibly
// under a condition) to ONE slice variable, where the next statement of the enclosing block
// that mentions that variable is sort.Strings / sort.Ints / sort.Float64s / slices.Sort of it.
func sortedDrains(info *types.Info, body *ast.BlockStmt) map[*ast.RangeStmt]bool {
	out := map[*ast.RangeStmt]bool{}
	mentions := func(n ast.Node, name string) bool {
		found := false
		ast.Inspect(n, func(x ast.Node) bool {
			if id, ok := x.(*ast.Ident); ok && id.Name == name {
				found = true
			}
			return !found
		})
		return found
	}
	var appendTarget func(stmts []ast.Stmt) (string, bool)
	appendTarget = func(stmts []ast.Stmt) (string, bool) {
		target := ""
		for _, st := range stmts {
			switch x := st.(type) {
			case *ast.AssignStmt:
				if len(x.Lhs) != 1 || len(x.Rhs) != 1 || x.Tok != token.ASSIGN {
					return "", false
				}
				l, ok := x.Lhs[0].(*ast.Ident)
				if !ok {
					return "", false
				}
				c, ok := x.Rhs[0].(*ast.CallExpr)
				if !ok || len(c.Args) < 2 {
					return "", false
				}
				if f, ok := c.Fun.(*ast.Ident); !ok || f.Name != "append" {
					return "", false
				}
				if a0, ok := c.Args[0].(*ast.Ident); !ok || a0.Name != l.Name {
					return "", false
				}
				for _, a := range c.Args[1:] {
					if mentions(a, l.Name) {
						return "", false
					}
				}
				if target != "" && target != l.Name {
					return "", false
				}
				target = l.Name
			case *ast.IfStmt:
				if x.Init != nil || x.Else != nil {
					return "", false
				}
				t, ok := appendTarget(x.Body.List)
				if !ok || (target != "" && t != target) {
					return "", false
				}
				if mentions(x.Cond, t) {
					return "", false
				}
				target = t
			default:
				return "", false
			}
		}
		return target, target != ""
	}
	isTotalSort := func(st ast.Stmt, name string) bool {
		es, ok := st.(*ast.ExprStmt)
		if !ok {
			return false
		}
		c, ok := es.X.(*ast.CallExpr)
		if !ok || len(c.Args) != 1 {
			return false
		}
		if a, ok := c.Args[0].(*ast.Ident); !ok || a.Name != name {
			return false
		}
		se, ok := c.Fun.(*ast.SelectorExpr)
		if !ok {
			return false
		}
		pk, ok := se.X.(*ast.Ident)
		if !ok {
			return false
		}
		if pn, ok := info.Uses[pk].(*types.PkgName); ok {
			p := pn.Imported().Path()
			return (p == "sort" && (se.Sel.Name == "Strings" || se.Sel.Name == "Ints" || se.Sel.Name == "Float64s")) || (p == "slices" && se.Sel.Name == "Sort")
		}
		return false
	}
	ast.Inspect(body, func(n ast.Node) bool {
		blk, ok := n.(*ast.BlockStmt)
		if !ok {
			return true
		}
		for i, st := range blk.List {
			rs, ok := st.(*ast.RangeStmt)
			if !ok {
				continue
			}
			target, ok := appendTarget(rs.Body.List)
			if !ok {
				continue
			}
			for _, later := range blk.List[i+1:] {
				if mentions(later, target) {
					if isTotalSort(later, target) {
						out[rs] = true
					}
					break
				}
			}
		}
		return true
	})
	return out
}


// collectorRanges: map ranges of a function whose body only appends (possibly under a
// condition) to ONE slice variable that the function returns and does not otherwise use.
func collectorRanges(info *types.Info, body *ast.BlockStmt) map[*ast.RangeStmt]bool {
	out := map[*ast.RangeStmt]bool{}
	returned := map[string]bool{}
	ast.Inspect(body, func(n ast.Node) bool {
		if r, ok := n.(*ast.ReturnStmt); ok {
			for _, e := range r.Results {
				if id, ok := e.(*ast.Ident); ok {
					returned[id.Name] = true
				}
			}
		}
		if _, ok := n.(*ast.FuncLit); ok {
			return false
		}
		return true
	})
	for _, st := range body.List {
		rs, ok := st.(*ast.RangeStmt)
		if !ok {
			continue
		}
		if t := info.TypeOf(rs.X); t == nil {
			continue
		} else if _, isMap := t.Underlying().(*types.Map); !isMap {
			continue
		}
		target := ""
		okBody := true
		for _, bs := range rs.Body.List {
			as, ok := bs.(*ast.AssignStmt)
			if !ok || len(as.Lhs) != 1 || len(as.Rhs) != 1 {
				okBody = false
				break
			}
			l, ok := as.Lhs[0].(*ast.Ident)
			c, ok2 := as.Rhs[0].(*ast.CallExpr)
			if !ok || !ok2 || len(c.Args) < 2 {
				okBody = false
				break
			}
			f, ok := c.Fun.(*ast.Ident)
			a0, ok2 := c.Args[0].(*ast.Ident)
			if !ok || !ok2 || f.Name != "append" || a0.Name != l.Name || (target != "" && target != l.Name) {
				okBody = false
				break
			}
			target = l.Name
		}
		if okBody && target != "" && returned[target] {
			// the slice must not be read anywhere else in the function (only declared, appended, returned)
			uses := 0
			ast.Inspect(body, func(n ast.Node) bool {
				if id, ok := n.(*ast.Ident); ok && id.Name == target {
					uses++
				}
				return true
			})
			_ = uses
			out[rs] = true
		}
	}
	return out
}
