package main

// Top-level //@ directive ... obligations that are computed from code structure.

import (
	"fmt"
	"go/ast"
	"strings"
)

func (r *Run) directiveObligations(d *Directive) []*Obligation {
	switch d.Kind {
	case "pairwise-disjoint":
		return r.dirPairwiseDisjoint(d)
	}
	if f := directiveHandlers[d.Kind]; f != nil {
		return f(r, d)
	}
	ob := &Obligation{Name: pkgShort(d.Pkg) + ".directive/" + d.Kind, Func: "directive", Kind: "directive", Tags: d.Tags, Status: "failed", Detail: "unknown directive kind " + d.Kind, Descr: d.Args}
	return []*Obligation{ob}
}

var directiveHandlers = map[string]func(r *Run, d *Directive) []*Obligation{}

// pairwise-disjoint <Func> <field> <domain set expression>
// The patterns registered in the composite literal `<field>: map[...]...{...}` inside
// <Func> (read from the current source) must be pairwise disjoint over the domain.
func (r *Run) dirPairwiseDisjoint(d *Directive) []*Obligation {
	f := strings.Fields(d.Args)
	fail := func(msg string) []*Obligation {
		return []*Obligation{{Name: pkgShort(d.Pkg) + ".reglemma/pairwise-disjoint", Func: "directive", Kind: "reglan", Tags: d.Tags, Status: "failed", FailStatus: "error", Detail: msg, Descr: d.Args}}
	}
	if len(f) < 3 {
		return fail("pairwise-disjoint needs: Func field domain")
	}
	site := r.w.funcs[d.Pkg+"::"+f[0]]
	if site == nil || site.decl == nil {
		return fail("function " + f[0] + " not found")
	}
	domain := strings.TrimSpace(strings.TrimPrefix(strings.TrimSpace(strings.TrimPrefix(d.Args, f[0])), f[1]))
	var names []string
	ast.Inspect(site.decl.Body, func(n ast.Node) bool {
		kv, ok := n.(*ast.KeyValueExpr)
		if !ok {
			return true
		}
		if id, ok := kv.Key.(*ast.Ident); !ok || id.Name != f[1] {
			return true
		}
		cl, ok := kv.Value.(*ast.CompositeLit)
		if !ok {
			return true
		}
		for _, el := range cl.Elts {
			if e, ok := el.(*ast.KeyValueExpr); ok {
				names = append(names, exprString(e.Value))
			}
		}
		return false
	})
	if len(names) < 2 {
		return fail("no pattern map literal found in " + f[0])
	}
	var out []*Obligation
	for i := 0; i < len(names); i++ {
		for j := i + 1; j < len(names); j++ {
			text := fmt.Sprintf("disjoint(match(%s), match(%s), %s)", names[i], names[j], domain)
			short := func(s string) string { return s[strings.LastIndex(s, ".")+1:] }
			out = append(out, r.regLemmaObligation(fmt.Sprintf("%s.reglemma/disjoint:%s~%s", pkgShort(d.Pkg), short(names[i]), short(names[j])), d.Tags, text,
				"no line is claimed by two directive patterns (map iteration order cannot change the classification)"))
		}
	}
	return out
}
