package main

// Top-level //@ directive ... obligations that are computed from code structure.

import (
	"fmt"
	"go/ast"
	"strings"
)

func (r *Run) directiveObligations(d *Directive) []*Obligation {
	switch d.Kind {
	case "pairwise-disjoint":
		return r.dirPairwiseDisjoint(d)
	}
	if f := directiveHandlers[d.Kind]; f != nil {
		return f(r, d)
	}
	ob := &Obligation{Name: pkgShort(d.Pkg) + ".directive/" + d.Kind, Func: "directive", Kind: "directive", Tags: d.Tags, Status: "failed", Detail: "unknown directive kind " + d.Kind, Descr: d.Args}
	return []*Obligation{ob}
}

var directiveHandlers = map[string]func(r *Run, d *Directive) []*Obligation{}

// pairwise-disjoint <Func> <field> <domain set expression>
// The patterns registered in the composite literal `<field>: map[...]...{...}` inside
// <Func> (read from the current source) must be pairwise disjoint over the domain.
func (r *Run) dirPairwiseDisjoint(d *Directive) []*Obligation {
	f := strings.Fields(d.Args)
	fail := func(msg string) []*Obligation {
		return []*Obligation{{Name: pkgShort(d.Pkg) + ".reglemma/pairwise-disjoint", Func: "directive", Kind: "reglan", Tags: d.Tags, Status: "failed", FailStatus: "error", Detail: msg, Descr: d.Args}}
	}
	if len(f) < 3 {
		return fail("pairwise-disjoint needs: Func field domain")
	}
	site := r.w.funcs[d.Pkg+"::"+f[0]]
	if site == nil || site.decl == nil {
		return fail("function " + f[0] + " not found")
	}
	domain := strings.TrimSpace(strings.TrimPrefix(strings.TrimSpace(strings.TrimPrefix(d.Args, f[0])), f[1]))
	var names []string
	ast.Inspect(site.decl.Body, func(n ast.Node) bool {
		kv, ok := n.(*ast.KeyValueExpr)
		if !ok {
			return true
		}
		if id, ok := kv.Key.(*ast.Ident); !ok || id.Name != f[1] {
			return true
		}
		cl, ok := kv.Value.(*ast.CompositeLit)
		if !ok {
			return true
		}
		for _, el := range cl.Elts {
			if e, ok := el.(*ast.KeyValueExpr); ok {
				names = append(names, exprString(e.Value))
			}
		}
		return false
	})
	if len(names) < 2 {
		return fail("no pattern map literal found in " + f[0])
	}
	var out []*Obligation
	for i := 0; i < len(names); i++ {
		for j := i + 1; j < len(names); j++ {
			text := fmt.Sprintf("disjoint(match(%s), match(%s), %s)", names[i], names[j], domain)
			short := func(s string) string { return s[strings.LastIndex(s, ".")+1:] }
			out = append(out, r.regLemmaObligation(fmt.Sprintf("%s.reglemma/disjoint:%s~%s", pkgShort(d.Pkg), short(names[i]), short(names[j])), d.Tags, text,
				"no line is claimed by two directive patterns (map iteration order cannot change the classification)"))
		}
	}
	return out
}

func init() {
	directiveHandlers["switch-groups"] = dirSwitchGroups
}

// switch-groups <Func> <Ctor> <field>
// In <Func>, a loop `for name, pattern := range x.<field>` computes found :=
// pattern.FindStringSubmatch(..) and switches on `name`. Every `found[k]` in the case for a
// name must be within the number of capture groups of the pattern that <Ctor> registers
// under that name in the composite literal of <field> (read from the current source).
func dirSwitchGroups(r *Run, d *Directive) []*Obligation {
	f := strings.Fields(d.Args)
	if len(f) < 3 {
		return dirFail(d, "switch-groups", "needs: Func Ctor field")
	}
	fn := r.w.funcs[d.Pkg+"::"+f[0]]
	ctor := r.w.funcs[d.Pkg+"::"+f[1]]
	if fn == nil || ctor == nil || fn.decl == nil || ctor.decl == nil {
		return dirFail(d, "switch-groups:"+f[0], "function not found")
	}
	info := fn.pkg.TypesInfo
	constStr := func(e ast.Expr) (string, bool) {
		if tv, ok := info.Types[e]; ok && tv.Value != nil {
			s := tv.Value.ExactString()
			if len(s) >= 2 && s[0] == '"' {
				var out string
				if _, err := fmt.Sscanf(s, "%q", &out); err == nil {
					return out, true
				}
			}
		}
		return "", false
	}
	// name -> pattern literal from the constructor's map literal
	registered := map[string]string{}
	ast.Inspect(ctor.decl.Body, func(n ast.Node) bool {
		kv, ok := n.(*ast.KeyValueExpr)
		if !ok {
			return true
		}
		if id, ok := kv.Key.(*ast.Ident); !ok || id.Name != f[2] {
			return true
		}
		cl, ok := kv.Value.(*ast.CompositeLit)
		if !ok {
			return true
		}
		for _, el := range cl.Elts {
			e, ok := el.(*ast.KeyValueExpr)
			if !ok {
				continue
			}
			if tv, ok := ctor.pkg.TypesInfo.Types[e.Key]; ok && tv.Value != nil {
				var key string
				fmt.Sscanf(tv.Value.ExactString(), "%q", &key)
				if lit, ok := r.w.regexByName[exprString(e.Value)]; ok {
					registered[key] = lit
				}
			}
		}
		return false
	})
	ob := &Obligation{Name: fmt.Sprintf("%s.reglemma/switch-groups:%s", pkgShort(d.Pkg), f[0]), Func: pkgShort(d.Pkg) + "." + f[0], Kind: "reglan", Tags: d.Tags, Solver: "ast+regexp/syntax", Status: "discharged",
		Descr: "every found[k] in a case of the directive switch is within the capture groups of the pattern registered under that name"}
	var bad []string
	cases := 0
	ast.Inspect(fn.decl.Body, func(n ast.Node) bool {
		sw, ok := n.(*ast.SwitchStmt)
		if !ok || sw.Tag == nil {
			return true
		}
		for _, cs := range sw.Body.List {
			cc := cs.(*ast.CaseClause)
			for _, ce := range cc.List {
				name, ok := constStr(ce)
				if !ok {
					continue
				}
				lit, ok := registered[name]
				if !ok {
					bad = append(bad, "case "+name+": no pattern registered under this name")
					continue
				}
				ri := r.w.regexInfo(lit)
				cases++
				for _, st := range cc.Body {
					ast.Inspect(st, func(m ast.Node) bool {
						ix, ok := m.(*ast.IndexExpr)
						if !ok {
							return true
						}
						if id, ok := ix.X.(*ast.Ident); ok && id.Name == "found" {
							if bl, ok := ix.Index.(*ast.BasicLit); ok {
								k := 0
								fmt.Sscanf(bl.Value, "%d", &k)
								if k > ri.NumSubexp {
									bad = append(bad, fmt.Sprintf("case %s: found[%d] but pattern %q has %d groups", name, k, lit, ri.NumSubexp))
								}
							} else {
								bad = append(bad, "case "+name+": non-literal index into found")
							}
						}
						return true
					})
				}
			}
		}
		return false
	})
	if cases == 0 {
		bad = append(bad, "no switch over registered pattern names found")
	}
	if len(bad) > 0 {
		ob.Status = "failed"
		ob.FailStatus = "mismatch"
		ob.Detail = strings.Join(bad, "; ")
	}
	return []*Obligation{ob}
}
