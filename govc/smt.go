package main

// SMT-LIB plumbing: preamble of the "array" encoding, solver racing, result parsing.

import (
	"bytes"
	"context"
	"encoding/hex"
	"fmt"
	"regexp"
	"os"
	"os/exec"
	"path/filepath"
	"strings"
	"sync"
	"syscall"
	"time"
)

// Preamble of the array encoding (DESIGN 2.4).  A Go string / []byte is a Str:
// an (Array Int Int) of bytes plus a length, kept in *canonical form* (every
// index outside [0,len) holds 0, every index inside holds 0..255), so that Go
// equality of strings is SMT equality and spec functions are congruent for free.
// []string / [][]byte is an SL (array of Str + length, canonical: outside = empty).
// []int is an IL.
const preambleArray = `(set-option :produce-models true)
(set-logic ALL)
(declare-datatypes ((Str 0)) (((mkstr (chars (Array Int Int)) (slen Int)))))
(declare-datatypes ((SL 0)) (((mksl (items (Array Int Str)) (sllen Int)))))
(declare-datatypes ((IL 0)) (((mkil (ints (Array Int Int)) (illen Int)))))
(define-fun emptystr () Str (mkstr ((as const (Array Int Int)) 0) 0))
(define-fun wfstr ((s Str)) Bool (and (>= (slen s) 0)
  (forall ((i Int)) (! (and (<= 0 (select (chars s) i)) (<= (select (chars s) i) 255)
     (=> (or (< i 0) (>= i (slen s))) (= (select (chars s) i) 0))) :pattern ((select (chars s) i))))))
(define-fun wfsl ((l SL)) Bool (and (>= (sllen l) 0)
  (forall ((i Int)) (! (and (wfstr (select (items l) i))
     (=> (or (< i 0) (>= i (sllen l))) (= (select (items l) i) emptystr))) :pattern ((select (items l) i))))))
(define-fun wfil ((l IL)) Bool (and (>= (illen l) 0)
  (forall ((i Int)) (! (=> (or (< i 0) (>= i (illen l))) (= (select (ints l) i) 0)) :pattern ((select (ints l) i))))))
(define-fun at ((s Str) (i Int)) Int (select (chars s) i))
(define-fun nonl ((s Str)) Bool (forall ((i Int)) (! (=> (and (<= 0 i) (< i (slen s))) (not (= (select (chars s) i) 10))) :pattern ((select (chars s) i)))))
(define-fun sat_ ((l SL) (i Int)) Str (select (items l) i))
(define-fun appendbyte ((s Str) (b Int)) Str (mkstr (store (chars s) (slen s) b) (+ (slen s) 1)))
(define-fun appendstr ((l SL) (s Str)) SL (mksl (store (items l) (sllen l) s) (+ (sllen l) 1)))
(define-fun emptysl () SL (mksl ((as const (Array Int Str)) (mkstr ((as const (Array Int Int)) 0) 0)) 0))
(define-fun emptyil () IL (mkil ((as const (Array Int Int)) 0) 0))
(declare-fun scat (Str Str) Str)
(assert (forall ((a Str) (b Str)) (! (and (= (slen (scat a b)) (+ (slen a) (slen b)))
  (=> (and (>= (slen a) 0) (>= (slen b) 0)) (and
  (forall ((i Int)) (! (and (=> (and (<= 0 i) (< i (slen a))) (= (select (chars (scat a b)) i) (select (chars a) i)))
                            (=> (and (<= (slen a) i) (< i (+ (slen a) (slen b)))) (= (select (chars (scat a b)) i) (select (chars b) (- i (slen a)))))
                            (=> (or (< i 0) (>= i (+ (slen a) (slen b)))) (= (select (chars (scat a b)) i) 0)))
     :pattern ((select (chars (scat a b)) i))))
  (forall ((j Int)) (! (=> (and (<= 0 j) (< j (slen b))) (= (select (chars (scat a b)) (+ (slen a) j)) (select (chars b) j))) :pattern ((select (chars b) j)))))))
  :pattern ((scat a b)))))
(declare-fun ssub (Str Int Int) Str)
(assert (forall ((s Str) (lo Int) (hi Int)) (! (and (= (slen (ssub s lo hi)) (- hi lo))
  (forall ((i Int)) (! (and (=> (and (<= 0 i) (< i (- hi lo))) (= (select (chars (ssub s lo hi)) i) (select (chars s) (+ lo i))))
                            (=> (or (< i 0) (>= i (- hi lo))) (= (select (chars (ssub s lo hi)) i) 0)))
     :pattern ((select (chars (ssub s lo hi)) i))))
  (forall ((j Int)) (! (=> (and (<= lo j) (< j hi)) (= (select (chars (ssub s lo hi)) (- j lo)) (select (chars s) j))) :pattern ((select (chars s) j)))))
  :pattern ((ssub s lo hi)))))
(declare-fun slsub (SL Int Int) SL)
(assert (forall ((s SL) (lo Int) (hi Int)) (! (and (= (sllen (slsub s lo hi)) (- hi lo))
  (forall ((i Int)) (! (and (=> (and (<= 0 i) (< i (- hi lo))) (= (select (items (slsub s lo hi)) i) (select (items s) (+ lo i))))
                            (=> (or (< i 0) (>= i (- hi lo))) (= (select (items (slsub s lo hi)) i) emptystr)))
     :pattern ((select (items (slsub s lo hi)) i)))))
  :pattern ((slsub s lo hi)))))
(declare-fun slcat (SL SL) SL)
(assert (forall ((a SL) (b SL)) (! (and (= (sllen (slcat a b)) (+ (sllen a) (sllen b)))
  (=> (and (>= (sllen a) 0) (>= (sllen b) 0)) (forall ((i Int)) (! (and (=> (and (<= 0 i) (< i (sllen a))) (= (select (items (slcat a b)) i) (select (items a) i)))
                            (=> (and (<= (sllen a) i) (< i (+ (sllen a) (sllen b)))) (= (select (items (slcat a b)) i) (select (items b) (- i (sllen a)))))
                            (=> (or (< i 0) (>= i (+ (sllen a) (sllen b)))) (= (select (items (slcat a b)) i) emptystr)))
     :pattern ((select (items (slcat a b)) i))))))
  :pattern ((slcat a b)))))
(define-fun gomod ((a Int) (b Int)) Int (ite (>= a 0) (mod a (ite (>= b 0) b (- b))) (- (mod (- a) (ite (>= b 0) b (- b))))))
(define-fun godiv ((a Int) (b Int)) Int (ite (>= a 0) (ite (> b 0) (div a b) (- (div a (- b)))) (ite (> b 0) (- (div (- a) b)) (div (- a) (- b)))))
`

type SolverResult struct {
	Status string // unsat | sat | unknown | timeout | error
	Solver string
	Ms     int64
	Output string // raw output of the deciding (or last) solver, truncated
	Model  string
}

type solverSpec struct {
	name string
	args []string
}

var arraySolvers = []solverSpec{
	{"z3-4.8.12", []string{"z3", "-smt2"}},
	{"z3-5.1.0", []string{"z3-new", "-smt2"}},
	{"cvc5-1.0.3", []string{"cvc5", "--lang=smt2", "--produce-models"}},
}

var seqSolvers = []solverSpec{
	{"cvc5-1.0.3", []string{"cvc5", "--lang=smt2", "--strings-exp", "--produce-models"}},
	{"z3-5.1.0", []string{"z3-new", "-smt2"}},
}

var scratchDir string
var scratchOnce sync.Once
var querySeq int
var queryMu sync.Mutex

func scratch() string {
	scratchOnce.Do(func() {
		base := os.Getenv("TMPDIR")
		if base == "" {
			base = "/tmp"
		}
		d, err := os.MkdirTemp(base, "govc.")
		if err != nil {
			panic(err)
		}
		scratchDir = d
	})
	return scratchDir
}

func cleanupScratch() {
	if scratchDir != "" && os.Getenv("GOVC_KEEP") == "" {
		os.RemoveAll(scratchDir)
	}
}

// solve races the given solvers on one SMT-LIB text. First "unsat" wins; a "sat"
// from any solver is final as well. Hard timeout per solver.
func solve(text string, solvers []solverSpec, timeout time.Duration) SolverResult {
	return solveCtx(context.Background(), text, solvers, timeout)
}

func solveCtx(parent context.Context, text string, solvers []solverSpec, timeout time.Duration) SolverResult {
	queryMu.Lock()
	querySeq++
	n := querySeq
	queryMu.Unlock()
	file := filepath.Join(scratch(), fmt.Sprintf("q%05d.smt2", n))
	if err := os.WriteFile(file, []byte(text), 0o644); err != nil {
		return SolverResult{Status: "error", Output: err.Error()}
	}
	ctx, cancel := context.WithTimeout(parent, timeout)
	defer cancel()
	type res struct {
		SolverResult
	}
	ch := make(chan SolverResult, len(solvers))
	for _, s := range solvers {
		s := s
		go func() {
			start := time.Now()
			args := append([]string{}, s.args[1:]...)
			args = append(args, file)
			cmd := exec.CommandContext(ctx, s.args[0], args...)
			// never leave a solver behind when govc itself is killed
			cmd.SysProcAttr = &syscall.SysProcAttr{Pdeathsig: syscall.SIGKILL}
			var out bytes.Buffer
			cmd.Stdout = &out
			cmd.Stderr = &out
			_ = cmd.Run()
			ms := time.Since(start).Milliseconds()
			o := out.String()
			first := strings.TrimSpace(strings.SplitN(o, "\n", 2)[0])
			st := "unknown"
			// an (error ...) printed BEFORE the verdict means the query was not the intended one
			// (z3 goes on after an ill-sorted assert); one printed after it (get-value after
			// unsat) is harmless
			errBefore := false
			for _, ln := range strings.Split(o, "\n") {
				t := strings.TrimSpace(ln)
				if t == "sat" || t == "unsat" || t == "unknown" {
					break
				}
				if strings.Contains(t, "(error ") {
					errBefore = true
					break
				}
			}
			switch {
			case errBefore:
				st = "error"
			case first == "unsat":
				st = "unsat"
			case first == "sat":
				st = "sat"
			case ctx.Err() != nil:
				st = "timeout"
			case first == "unknown":
				st = "unknown"
			case strings.Contains(o, "error") || strings.Contains(o, "rror:"):
				st = "error"
			}
			if len(o) > 4000 {
				o = o[:4000]
			}
			r := SolverResult{Status: st, Solver: s.name, Ms: ms, Output: o}
			if st == "sat" {
				if i := strings.Index(o, "\n"); i >= 0 {
					r.Model = o[i+1:]
				}
			}
			ch <- r
		}()
	}
	var last SolverResult
	var errs []string
	got := 0
	for got < len(solvers) {
		r := <-ch
		got++
		if r.Status == "unsat" || r.Status == "sat" {
			cancel()
			return r
		}
		if r.Status == "error" {
			errs = append(errs, r.Solver+": "+strings.TrimSpace(r.Output))
		}
		if last.Status == "" || r.Status == "unknown" || (last.Status == "error" && r.Status != "error") {
			last = r
		}
	}
	if len(errs) == len(solvers) {
		last.Status = "error"
		last.Output = strings.Join(errs, "\n")
	}
	return last
}

// solve2 races the solvers on two renderings of the same obligation (full and light);
// "unsat" on either discharges it; "sat" is only trusted on the full text.
func solve2(full, light string, solvers []solverSpec, timeout time.Duration) SolverResult {
	type rr struct {
		r    SolverResult
		full bool
	}
	ctx, cancel := context.WithCancel(context.Background())
	defer cancel()
	ch := make(chan rr, 2)
	go func() { ch <- rr{solveCtx(ctx, full, solvers, timeout), true} }()
	go func() { ch <- rr{solveCtx(ctx, light, solvers, timeout), false} }()
	var fullRes SolverResult
	for i := 0; i < 2; i++ {
		x := <-ch
		if x.r.Status == "unsat" {
			if !x.full {
				x.r.Solver += "(light)"
			}
			return x.r
		}
		if x.full {
			fullRes = x.r
		}
	}
	return fullRes
}

// runParallel runs f(i) for i in [0,n) on up to `workers` goroutines.
func runParallel(n, workers int, f func(i int)) {
	if workers < 1 {
		workers = 1
	}
	var wg sync.WaitGroup
	sem := make(chan struct{}, workers)
	for i := 0; i < n; i++ {
		wg.Add(1)
		sem <- struct{}{}
		go func(i int) {
			defer wg.Done()
			defer func() { <-sem }()
			f(i)
		}(i)
	}
	wg.Wait()
}

func smtInt(n int64) string {
	if n < 0 {
		return fmt.Sprintf("(- %d)", -n)
	}
	return fmt.Sprintf("%d", n)
}

// smtStrLit names the Str constant for a Go string literal: lit_<hex of the bytes>.
// Its definition is emitted per encoding by litDefs.
func smtStrLit(s string) string {
	if s == "" {
		return "emptystr"
	}
	return "lit_" + hex.EncodeToString([]byte(s))
}

var litSymRe = regexp.MustCompile(`\blit_([0-9a-f]+)\b`)

func litBytes(sym string) []byte {
	b, _ := hex.DecodeString(strings.TrimPrefix(sym, "lit_"))
	return b
}

// litDefs: definitions of the literal constants occurring in text.
func litDefs(text string, seq bool) string {
	seen := map[string]bool{}
	var b strings.Builder
	for _, m := range litSymRe.FindAllString(text, -1) {
		if seen[m] {
			continue
		}
		seen[m] = true
		bs := litBytes(m)
		if seq {
			var sb strings.Builder
			for _, c := range bs {
				sb.WriteString(fmt.Sprintf("\\u{%x}", c))
			}
			fmt.Fprintf(&b, "(define-fun %s () Str \"%s\")\n", m, sb.String())
		} else {
			arr := "((as const (Array Int Int)) 0)"
			for i, c := range bs {
				arr = fmt.Sprintf("(store %s %d %d)", arr, i, c)
			}
			fmt.Fprintf(&b, "(define-fun %s () Str (mkstr %s %d))\n", m, arr, len(bs))
		}
	}
	return b.String()
}

// Preamble of the "seq" encoding (DESIGN 2.4): Str is the SMT-LIB String sort; the
// same function names as in the array encoding are defined over it, so the generator
// emits one term language. Used for loop-free string algebra only.
const preambleSeq = `(set-option :produce-models true)
(set-logic ALL)
(define-sort Str () String)
(declare-datatypes ((SL 0)) (((mksl (items (Array Int String)) (sllen Int)))))
(declare-datatypes ((IL 0)) (((mkil (ints (Array Int Int)) (illen Int)))))
(define-fun emptystr () Str "")
(define-fun slen ((s Str)) Int (str.len s))
(define-fun at ((s Str) (i Int)) Int (str.to_code (str.at s i)))
(define-fun wfstr ((s Str)) Bool (str.in_re s (re.* (re.range "\u{0}" "\u{ff}"))))
(define-fun nonl ((s Str)) Bool (not (str.contains s "\\u{a}")))
(define-fun sat_ ((l SL) (i Int)) Str (select (items l) i))
(define-fun wfsl ((l SL)) Bool (>= (sllen l) 0))
(define-fun wfil ((l IL)) Bool (>= (illen l) 0))
(define-fun scat ((a Str) (b Str)) Str (str.++ a b))
(define-fun ssub ((s Str) (lo Int) (hi Int)) Str (str.substr s lo (- hi lo)))
(define-fun appendbyte ((s Str) (b Int)) Str (str.++ s (str.from_code b)))
(define-fun appendstr ((l SL) (s Str)) SL (mksl (store (items l) (sllen l) s) (+ (sllen l) 1)))
(define-fun emptysl () SL (mksl ((as const (Array Int String)) "") 0))
(define-fun emptyil () IL (mkil ((as const (Array Int Int)) 0) 0))
(declare-fun slsub (SL Int Int) SL)
(assert (forall ((s SL) (lo Int) (hi Int)) (! (and (= (sllen (slsub s lo hi)) (- hi lo))
  (forall ((i Int)) (! (=> (and (<= 0 i) (< i (- hi lo))) (= (select (items (slsub s lo hi)) i) (select (items s) (+ lo i)))) :pattern ((select (items (slsub s lo hi)) i)))))
  :pattern ((slsub s lo hi)))))
(declare-fun slcat (SL SL) SL)
(assert (forall ((a SL) (b SL)) (! (and (= (sllen (slcat a b)) (+ (sllen a) (sllen b)))
  (=> (and (>= (sllen a) 0) (>= (sllen b) 0)) (forall ((i Int)) (! (and (=> (and (<= 0 i) (< i (sllen a))) (= (select (items (slcat a b)) i) (select (items a) i)))
                            (=> (and (<= (sllen a) i) (< i (+ (sllen a) (sllen b)))) (= (select (items (slcat a b)) i) (select (items b) (- i (sllen a))))))
     :pattern ((select (items (slcat a b)) i))))))
  :pattern ((slcat a b)))))
(define-fun gomod ((a Int) (b Int)) Int (ite (>= a 0) (mod a (ite (>= b 0) b (- b))) (- (mod (- a) (ite (>= b 0) b (- b))))))
(define-fun godiv ((a Int) (b Int)) Int (ite (>= a 0) (ite (> b 0) (div a b) (- (div a (- b)))) (ite (> b 0) (- (div (- a) b)) (div (- a) (- b)))))
(define-fun itoa ((n Int)) Str (ite (>= n 0) (str.from_int n) (str.++ "-" (str.from_int (- n)))))
`

func and(ts ...string) string {
	var xs []string
	for _, t := range ts {
		if t == "true" || t == "" {
			continue
		}
		if t == "false" {
			return "false"
		}
		xs = append(xs, t)
	}
	switch len(xs) {
	case 0:
		return "true"
	case 1:
		return xs[0]
	}
	return "(and " + strings.Join(xs, " ") + ")"
}

func not(t string) string {
	if t == "true" {
		return "false"
	}
	if t == "false" {
		return "true"
	}
	return "(not " + t + ")"
}

func implies(a, b string) string {
	if a == "true" {
		return b
	}
	if a == "false" {
		return "true"
	}
	return "(=> " + a + " " + b + ")"
}
