package main

// Statement execution: forward symbolic execution over the typed AST with path
// forking; loops are cut at their invariants.

import (
	"fmt"
	"go/ast"
	"go/token"
	"go/types"
	"strings"
)

func (fc *FnCtx) takeOutcome(st *State) (OutcomeKind, bool) {
	if o, ok := st.env["$outcome"]; ok {
		delete(st.env, "$outcome")
		if o.T == "exit" {
			return OExit, true
		}
		return OPanic, true
	}
	return ONormal, false
}

func one(k OutcomeKind, st *State) []Outcome { return []Outcome{{Kind: k, St: st}} }

func (fc *FnCtx) execBlock(st *State, stmts []ast.Stmt) []Outcome {
	cur := []*State{st}
	var outs []Outcome
	for _, s := range stmts {
		var next []*State
		for _, c := range cur {
			for _, o := range fc.execStmt(c, s) {
				if o.Kind == ONormal {
					next = append(next, o.St)
				} else {
					outs = append(outs, o)
				}
			}
		}
		cur = next
		if len(cur) > 4000 {
			fc.errorf("path explosion (>4000 live paths) at %s", fc.pos(s))
			cur = cur[:4000]
		}
	}
	for _, c := range cur {
		outs = append(outs, Outcome{Kind: ONormal, St: c})
	}
	return outs
}

func (fc *FnCtx) evalExprStmt(st *State, e ast.Expr) []Outcome {
	_ = fc.tr(st, e)
	if k, ok := fc.takeOutcome(st); ok {
		return one(k, st)
	}
	return one(ONormal, st)
}

func (fc *FnCtx) execStmt(st *State, s ast.Stmt) []Outcome {
	switch x := s.(type) {
	case *ast.BlockStmt:
		return fc.execBlock(st, x.List)
	case *ast.ExprStmt:
		return fc.evalExprStmt(st, x.X)
	case *ast.EmptyStmt:
		return one(ONormal, st)
	case *ast.DeclStmt:
		gd, ok := x.Decl.(*ast.GenDecl)
		if !ok || gd.Tok != token.VAR {
			return one(ONormal, st)
		}
		for _, sp := range gd.Specs {
			vs := sp.(*ast.ValueSpec)
			for i, nm := range vs.Names {
				obj := fc.info().Defs[nm]
				if obj == nil {
					continue
				}
				var v Val
				if i < len(vs.Values) {
					v = fc.tr(st, vs.Values[i])
				} else {
					v = zeroVal(fc, st, sortOf(obj.Type()), obj.Type())
				}
				fc.assignKey(st, objKey(obj), obj.Type(), v)
			}
		}
		if k, ok := fc.takeOutcome(st); ok {
			return one(k, st)
		}
		return one(ONormal, st)
	case *ast.AssignStmt:
		fc.execAssign(st, x)
		if k, ok := fc.takeOutcome(st); ok {
			return one(k, st)
		}
		return one(ONormal, st)
	case *ast.IncDecStmt:
		v := fc.tr(st, x.X)
		op := "+"
		if x.Tok == token.DEC {
			op = "-"
		}
		nv := fc.arith(st, x.X, "("+op+" "+v.T+" 1)", v, v)
		fc.assign(st, x.X, nv)
		return one(ONormal, st)
	case *ast.IfStmt:
		if x.Init != nil {
			outs := fc.execStmt(st, x.Init)
			var res []Outcome
			for _, o := range outs {
				if o.Kind != ONormal {
					res = append(res, o)
					continue
				}
				res = append(res, fc.execIf(o.St, x)...)
			}
			return res
		}
		return fc.execIf(st, x)
	case *ast.SwitchStmt:
		return fc.execSwitch(st, x)
	case *ast.ForStmt:
		return fc.execFor(st, x)
	case *ast.RangeStmt:
		return fc.execRange(st, x)
	case *ast.ReturnStmt:
		return fc.execReturn(st, x)
	case *ast.BranchStmt:
		if x.Label != nil {
			fc.errorf("%s: labelled branch not supported", fc.pos(x))
		}
		switch x.Tok {
		case token.BREAK:
			return one(OBreak, st)
		case token.CONTINUE:
			return one(OContinue, st)
		}
	case *ast.DeferStmt, *ast.GoStmt, *ast.SelectStmt, *ast.TypeSwitchStmt, *ast.LabeledStmt, *ast.SendStmt:
		fc.abstracted = append(fc.abstracted, fmt.Sprintf("%s: %T not modelled", fc.pos(s), s))
		return one(ONormal, st)
	}
	fc.errorf("%s: unsupported statement %T", fc.pos(s), s)
	return one(ONormal, st)
}

func (fc *FnCtx) execIf(st *State, x *ast.IfStmt) []Outcome {
	c := fc.tr(st, x.Cond)
	if k, ok := fc.takeOutcome(st); ok {
		return one(k, st)
	}
	var outs []Outcome
	thenSt := st.clone()
	thenSt.addAssume(c.T)
	outs = append(outs, fc.execBlock(thenSt, x.Body.List)...)
	elseSt := st
	elseSt.addAssume(not(c.T))
	if x.Else != nil {
		outs = append(outs, fc.execStmt(elseSt, x.Else)...)
	} else {
		outs = append(outs, Outcome{Kind: ONormal, St: elseSt})
	}
	return outs
}

func (fc *FnCtx) execSwitch(st *State, x *ast.SwitchStmt) []Outcome {
	if x.Init != nil {
		outs := fc.execStmt(st, x.Init)
		if len(outs) != 1 || outs[0].Kind != ONormal {
			fc.errorf("%s: switch init with effects not supported", fc.pos(x))
		}
		st = outs[0].St
	}
	var tag *Val
	if x.Tag != nil {
		v := fc.tr(st, x.Tag)
		tag = &v
	}
	var outs []Outcome
	var negs []string
	var deflt *ast.CaseClause
	for _, cs := range x.Body.List {
		cc := cs.(*ast.CaseClause)
		if cc.List == nil {
			deflt = cc
			continue
		}
		var alts []string
		for _, e := range cc.List {
			v := fc.tr(st, e)
			if tag != nil {
				alts = append(alts, "(= "+tag.T+" "+v.T+")")
			} else {
				alts = append(alts, v.T)
			}
		}
		cond := alts[0]
		if len(alts) > 1 {
			cond = "(or " + strings.Join(alts, " ") + ")"
		}
		cst := st.clone()
		for _, n := range negs {
			cst.addAssume(n)
		}
		cst.addAssume(cond)
		outs = append(outs, fc.execBlock(cst, cc.Body)...)
		negs = append(negs, not(cond))
	}
	dst := st
	for _, n := range negs {
		dst.addAssume(n)
	}
	if deflt != nil {
		outs = append(outs, fc.execBlock(dst, deflt.Body)...)
	} else {
		outs = append(outs, Outcome{Kind: ONormal, St: dst})
	}
	for i := range outs {
		if outs[i].Kind == OBreak {
			outs[i].Kind = ONormal
		}
	}
	return outs
}

// ---- assignment ------------------------------------------------------------------

func (fc *FnCtx) assignKey(st *State, key string, t types.Type, v Val) {
	if v.S == SNil {
		v = zeroVal(fc, st, sortOf(t), t)
	}
	if t != nil && isErrorType(t) && v.S != SInt {
		// a concrete error value (e.g. &ComparisonError{}) stored in an error: non-nil
		v = fc.newErr(st)
	}
	if t != nil {
		// keep dynamic type of interface-held records
		if _, isIface := t.Underlying().(*types.Interface); !(isIface && v.S == SRec && v.GT != nil) || isErrorType(t) {
			v.GT = t
		}
		// struct value copy: copy fields into a new record
		if _, isStruct := t.Underlying().(*types.Struct); isStruct && v.S == SRec && v.Rec != "" && !isBufType(t) {
			nv := fc.freshVal(st, "copy", SRec, t)
			if st.fresh[v.Rec] {
				st.fresh[nv.Rec] = true
			}
			prefix := v.Rec + "."
			for k, fv := range st.env {
				if strings.HasPrefix(k, prefix) {
					st.env[nv.Rec+"."+k[len(prefix):]] = fv
				}
			}
			for k, fv := range fc.initial {
				if strings.HasPrefix(k, prefix) {
					if _, ok := st.env[nv.Rec+"."+k[len(prefix):]]; !ok {
						st.env[nv.Rec+"."+k[len(prefix):]] = fv
					}
				}
			}
			if !st.fresh[v.Rec] {
				// unknown remaining fields of the source: alias lazily (approximation noted in DESIGN)
				nv = Val{S: SRec, GT: t, Rec: v.Rec}
			}
			v = nv
		}
	}
	st.env[key] = v
}

func (fc *FnCtx) assign(st *State, lhs ast.Expr, v Val) {
	switch l := lhs.(type) {
	case *ast.Ident:
		if l.Name == "_" {
			return
		}
		obj := fc.info().ObjectOf(l)
		if obj == nil {
			fc.errorf("%s: cannot resolve %s", fc.pos(l), l.Name)
			return
		}
		fc.assignKey(st, objKey(obj), obj.Type(), v)
	case *ast.ParenExpr:
		fc.assign(st, l.X, v)
	case *ast.SelectorExpr:
		if id, ok := l.X.(*ast.Ident); ok {
			if pn, ok := fc.info().Uses[id].(*types.PkgName); ok {
				o := pn.Imported().Scope().Lookup(l.Sel.Name)
				fc.assignKey(st, objKey(o), o.Type(), v)
				return
			}
		}
		base := fc.tr(st, l.X)
		if base.S == SRec && base.Rec != "" {
			ft := fc.fieldType(base.GT, l.Sel.Name)
			if ft == nil {
				ft = fc.typeOf(l)
			}
			fc.assignKey(st, base.Rec+"."+l.Sel.Name, ft, v)
			return
		}
		fc.errorf("%s: unsupported assignment target %s", fc.pos(l), exprString(l))
	case *ast.IndexExpr:
		base := fc.tr(st, l.X)
		idx := fc.tr(st, l.Index)
		switch base.S {
		case SMap:
			fc.mapWrite(st, base, idx, v)
			// len may grow
			if k := base.Rec + ".len"; true {
				old := fc.lenOf(st, base, l)
				nl := fc.freshVal(st, "maplen", SInt, nil)
				st.addAssume("(and (>= " + nl.T + " " + old.T + ") (<= " + nl.T + " (+ " + old.T + " 1)) (>= " + nl.T + " 1))")
				st.env[k] = nl
			}
		case SSL:
			if fc.safetyOn() {
				ord := fc.siteOrdinal("index", l)
				fc.oblige(st, fmt.Sprintf("index#%d", ord), "index", fc.contract.safetyTags(),
					"(and (<= 0 "+idx.T+") (< "+idx.T+" (sllen "+base.T+")))", "index in range: "+exprString(l), l)
			}
			nv := Val{T: "(mksl (store (items " + base.T + ") " + idx.T + " " + v.T + ") (sllen " + base.T + "))", S: SSL, GT: base.GT}
			fc.assign(st, l.X, nv)
		case SStr:
			if fc.safetyOn() {
				ord := fc.siteOrdinal("index", l)
				fc.oblige(st, fmt.Sprintf("index#%d", ord), "index", fc.contract.safetyTags(),
					"(and (<= 0 "+idx.T+") (< "+idx.T+" (slen "+base.T+")))", "index in range: "+exprString(l), l)
			}
			nv := Val{T: "(mkstr (store (chars " + base.T + ") " + idx.T + " " + v.T + ") (slen " + base.T + "))", S: SStr, GT: base.GT}
			fc.assign(st, l.X, nv)
		default:
			fc.errorf("%s: unsupported indexed assignment %s", fc.pos(l), exprString(l))
		}
	case *ast.StarExpr:
		// *p = v with p a variable pointing to a scalar or string: the pointee is a cell of its own
		if k, et, ok := fc.derefKey(l); ok {
			fc.assignKey(st, k, et, v)
			return
		}
		fc.abstracted = append(fc.abstracted, fmt.Sprintf("%s: store through pointer %s not modelled", fc.pos(l), exprString(l)))
	default:
		fc.errorf("%s: unsupported assignment target %T", fc.pos(lhs), lhs)
	}
}

func (fc *FnCtx) execAssign(st *State, x *ast.AssignStmt) {
	if x.Tok != token.ASSIGN && x.Tok != token.DEFINE {
		// op-assign
		bin := &ast.BinaryExpr{X: x.Lhs[0], Y: x.Rhs[0], OpPos: x.TokPos}
		switch x.Tok {
		case token.ADD_ASSIGN:
			bin.Op = token.ADD
		case token.SUB_ASSIGN:
			bin.Op = token.SUB
		case token.MUL_ASSIGN:
			bin.Op = token.MUL
		case token.QUO_ASSIGN:
			bin.Op = token.QUO
		case token.REM_ASSIGN:
			bin.Op = token.REM
		default:
			fc.errorf("%s: unsupported op-assign %s", fc.pos(x), x.Tok)
			return
		}
		a := fc.tr(st, x.Lhs[0])
		b := fc.tr(st, x.Rhs[0])
		var v Val
		switch bin.Op {
		case token.ADD:
			if a.S == SStr {
				v = fc.concat(st, a, b)
			} else {
				v = fc.arith(st, x.Lhs[0], "(+ "+a.T+" "+b.T+")", a, b)
			}
		case token.SUB:
			v = fc.arith(st, x.Lhs[0], "(- "+a.T+" "+b.T+")", a, b)
		case token.MUL:
			v = fc.arith(st, x.Lhs[0], "(* "+a.T+" "+b.T+")", a, b)
		case token.QUO:
			fc.divOblig(st, x, b)
			v = fc.arith(st, x.Lhs[0], "(godiv "+a.T+" "+b.T+")", a, b)
		case token.REM:
			fc.divOblig(st, x, b)
			v = fc.arith(st, x.Lhs[0], "(gomod "+a.T+" "+b.T+")", a, b)
		}
		fc.assign(st, x.Lhs[0], v)
		return
	}
	if len(x.Lhs) > 1 && len(x.Rhs) == 1 {
		switch r := x.Rhs[0].(type) {
		case *ast.CallExpr:
			rs := fc.trCall(st, r)
			for i, l := range x.Lhs {
				if i < len(rs) {
					fc.assign(st, l, rs[i])
				} else {
					fc.assign(st, l, fc.freshVal(st, "res", sortOf(fc.typeOf(l)), fc.typeOf(l)))
				}
			}
			return
		case *ast.IndexExpr: // v, ok := m[k]
			m := fc.tr(st, r.X)
			k := fc.tr(st, r.Index)
			if m.S == SMap {
				vt := fc.typeOf(x.Lhs[0])
				if tup, ok := fc.typeOf(r).(*types.Tuple); ok {
					vt = tup.At(0).Type()
				}
				fc.assign(st, x.Lhs[0], fc.mapRead(st, m, k, vt))
				fc.assign(st, x.Lhs[1], boolVal(fc.mapHas(st, m, k)))
				return
			}
		case *ast.TypeAssertExpr:
			v := fc.tr(st, r.X)
			fc.assign(st, x.Lhs[0], v)
			fc.assign(st, x.Lhs[1], boolVal(fc.declare("typeok", SBool)))
			return
		}
		fc.errorf("%s: unsupported multi-assignment", fc.pos(x))
		return
	}
	// parallel assignment: evaluate all RHS first
	var vals []Val
	for _, r := range x.Rhs {
		vals = append(vals, fc.tr(st, r))
	}
	for i, l := range x.Lhs {
		fc.assign(st, l, vals[i])
	}
}

// ---- return / postconditions ---------------------------------------------------------

func (fc *FnCtx) execReturn(st *State, x *ast.ReturnStmt) []Outcome {
	if len(x.Results) == 1 && fc.sig.Results().Len() > 1 {
		if call, ok := x.Results[0].(*ast.CallExpr); ok {
			rs := fc.trCall(st, call)
			for i, k := range fc.resultKeys {
				if i < len(rs) {
					fc.assignKey(st, k, fc.sig.Results().At(i).Type(), rs[i])
				}
			}
		}
	} else if len(x.Results) > 0 {
		var vals []Val
		for _, r := range x.Results {
			vals = append(vals, fc.tr(st, r))
		}
		for i, k := range fc.resultKeys {
			fc.assignKey(st, k, fc.sig.Results().At(i).Type(), vals[i])
		}
	}
	if k, ok := fc.takeOutcome(st); ok {
		return one(k, st)
	}
	fc.checkPost(st, x)
	return one(OReturn, st)
}

func (fc *FnCtx) fnScope(st *State, pos token.Pos) *nameScope {
	vals := map[string]Val{}
	for i, k := range fc.resultKeys {
		rt := fc.sig.Results().At(i).Type()
		v := fc.readKey(st, k, rt)
		nm := fc.sig.Results().At(i).Name()
		if i < len(fc.contract.Results) {
			nm = fc.contract.Results[i]
		}
		if nm != "" && nm != "_" {
			vals[nm] = v
		}
	}
	return &nameScope{vals: vals, objs: fc.localsAt(pos), pkg: fc.pkg}
}

// localsAt: objects visible at a position inside the function (params, results, locals).
func (fc *FnCtx) localsAt(pos token.Pos) map[string]types.Object {
	out := map[string]types.Object{}
	sc := fc.pkg.Types.Scope().Innermost(pos)
	for s := sc; s != nil && s != fc.pkg.Types.Scope() && s != types.Universe; s = s.Parent() {
		for _, n := range s.Names() {
			if _, seen := out[n]; seen {
				continue
			}
			o := s.Lookup(n)
			if o.Pos() <= pos || s != sc {
				out[n] = o
			}
		}
	}
	return out
}

func (fc *FnCtx) checkPost(st *State, at ast.Node) {
	if fc.dry > 0 || fc.inlineDepth > 0 {
		return
	}
	saved, savedOld, savedOF := fc.scope, fc.oldEnv, fc.oldFresh
	defer func() { fc.scope, fc.oldEnv, fc.oldFresh = saved, savedOld, savedOF }()
	fc.oldEnv, fc.oldFresh = map[string]Val{}, map[string]bool{}
	fc.applyUses(st, "use-exit", -1, fc.body.Rbrace-1, at)
	// in a postcondition a value parameter names the ARGUMENT (its value on entry), as it does
	// for the caller: a body that re-assigns the parameter must not change what the clause says
	if fc.sig != nil && fc.sig.Params() != nil {
		entry := &State{env: map[string]Val{}, assume: st.assume, guard: st.guard, fresh: map[string]bool{}}
		for i := 0; i < fc.sig.Params().Len(); i++ {
			p := fc.sig.Params().At(i)
			if p.Name() == "" || p.Name() == "_" {
				continue
			}
			switch sortOf(p.Type()) {
			case SInt, SBool, SStr, SSL, SIL:
				k := objKey(p)
				if cur, ok := st.env[k]; ok {
					ev := fc.readKey(entry, k, p.Type())
					if ev.T != cur.T {
						if st2 := st.clone(); st2 != nil {
							st = st2
						}
						st.env[k] = ev
					}
				}
			}
		}
		st.assume = entry.assume
	}
	sc := fc.fnScope(st, fc.body.Rbrace-1)
	// `ensures` are exported to callers; `checks` are postconditions that may mention locals
	// (checked here, never assumed at call sites)
	for i, cl := range append(fc.contract.clauses("ensures"), fc.contract.clauses("checks")...) {
		fc.scope = sc
		t := fc.tr(st, cl.Expr)
		fc.scope = nil
		label := cl.Label
		if label == "" {
			label = fmt.Sprintf("%d", i)
		}
		fc.oblige(st, "post/"+label, "post", fc.contract.tagsFor(cl), t.T, cl.Kind+" "+cl.Text, nil)
	}
	// scanner protocol (C17): every scanner created on this path either consumed its
	// whole input or its failure was reported before returning normally.
	if tags := fc.contract.Opts["scan-complete"]; tags != "" {
		for i, rec := range st.scans {
			f := fc.readKey(st, rec+".failed", types.Typ[types.Bool])
			goal := not(f.T)
			// a failure that is reported through an error result is loud enough
			for ri, k := range fc.resultKeys {
				if rt := fc.sig.Results().At(ri).Type(); isErrorType(rt) {
					ev := fc.readKey(st, k, rt)
					goal = "(or " + goal + " (not (= " + ev.T + " 0)))"
				}
			}
			fc.oblige(st, fmt.Sprintf("scan-complete#%d", i), "scan-complete", strings.Fields(tags), goal,
				"scanner stopped only at end of input, or its error was reported", nil)
		}
	}
}

// applyUses instantiates ghost lemmas named by `use` clauses: the lemma's requires is
// an obligation here, its ensures becomes a hypothesis of the path.
func (fc *FnCtx) applyUses(st *State, kind string, loop int, pos token.Pos, at ast.Node) {
	if fc.contract == nil {
		return
	}
	for ui, cl := range fc.contract.Clauses {
		if cl.Kind != kind || cl.Loop != loop {
			continue
		}
		if kind == "use-call" && cl.Label != fc.useCallee {
			continue
		}
		call, ok := cl.Expr.(*ast.CallExpr)
		if !ok {
			fc.errorf("use clause must be a lemma call: %s", cl.Text)
			continue
		}
		var lname, lpkg string
		switch f := call.Fun.(type) {
		case *ast.Ident:
			lname, lpkg = f.Name, fc.pkg.PkgPath
		case *ast.SelectorExpr:
			lname = f.Sel.Name
			if id, ok := f.X.(*ast.Ident); ok {
				for _, imp := range fc.pkg.Types.Imports() {
					if imp.Name() == id.Name {
						lpkg = imp.Path()
					}
				}
			}
		}
		lc := fc.w.cs.lookup(lpkg, lname)
		site := fc.w.funcs[lpkg+"::"+lname]
		if lc == nil || site == nil {
			fc.errorf("use: lemma %s not found", cl.Text)
			continue
		}
		lsig := site.pkg.TypesInfo.Defs[site.decl.Name].Type().(*types.Signature)
		saved, so, sf := fc.scope, fc.oldEnv, fc.oldFresh
		fc.scope = fc.fnScope(st, pos)
		fc.oldEnv, fc.oldFresh = map[string]Val{}, map[string]bool{}
		binds := map[string]Val{}
		for j, a := range call.Args {
			if j < lsig.Params().Len() {
				binds[lsig.Params().At(j).Name()] = fc.tr(st, a)
			}
		}
		lscope := &nameScope{vals: binds, pkg: site.pkg}
		fc.scope = lscope
		for i, rq := range lc.clauses("requires") {
			t := fc.tr(st, rq.Expr)
			fc.scope = nil
			fc.oblige(st, fmt.Sprintf("use%d:%s/pre%d@%s%d", ui, lname, i, strings.TrimPrefix(kind, "use-"), loop+1), "lemma-pre", fc.contract.tagsFor(cl), t.T, "precondition of lemma "+lname+": "+rq.Text, at)
			fc.scope = lscope
		}
		for _, en := range lc.clauses("ensures") {
			t := fc.tr(st, en.Expr)
			st.addAssume(t.T)
		}
		fc.scope, fc.oldEnv, fc.oldFresh = saved, so, sf
	}
}

// ---- loops --------------------------------------------------------------------------

func (fc *FnCtx) loopOrdinal(s ast.Stmt) int {
	return fc.loopOrd[s]
}

type loopParts struct {
	stmt  ast.Stmt
	ord   int
	cond  func(st *State) (string, []Outcome) // evaluates the guard (with effects); returns term
	pre   func(st *State)                      // executed at body start (range: bind key/value)
	body  *ast.BlockStmt
	post  func(st *State) []Outcome
	bodyPos token.Pos
}

func (fc *FnCtx) runLoop(st *State, lp loopParts) []Outcome {
	c := fc.contract
	invs := c.loopClauses("invariant", lp.ord)
	decs := c.loopClauses("decreases", lp.ord)
	scopeAt := func(s *State) *nameScope {
		sc := fc.fnScope(s, lp.bodyPos)
		return sc
	}
	if fc.loopEntry == nil {
		fc.loopEntry = map[int]*State{}
	}
	fc.loopEntry[lp.ord] = st.clone()
	trClause := func(s *State, cl *Clause) string {
		savedLoop := fc.curLoop
		fc.curLoop = lp.ord
		defer func() { fc.curLoop = savedLoop }()
		saved, so, sf := fc.scope, fc.oldEnv, fc.oldFresh
		fc.scope = scopeAt(s)
		fc.oldEnv, fc.oldFresh = map[string]Val{}, map[string]bool{}
		t := fc.tr(s, cl.Expr)
		fc.scope, fc.oldEnv, fc.oldFresh = saved, so, sf
		return t.T
	}
	label := func(i int, cl *Clause) string {
		if cl.Label != "" {
			return cl.Label
		}
		return fmt.Sprintf("%d", i)
	}
	// optional invariants (`loop N invariant? e`): the coupling of an abstraction variable with a
	// loop counter (`eof == i`). When the loop is written without that counter the clause names
	// something that does not exist: it is dropped (with a note) and the remaining invariants
	// have to carry the proof on their own.
	{
		var kept []*Clause
		for _, cl := range invs {
			if cl.Optional {
				n0 := len(fc.errors)
				probe := st.clone()
				fc.dry++
				_ = trClause(probe, cl)
				fc.dry--
				unresolved := false
				for _, e := range fc.errors[n0:] {
					if strings.Contains(e, "unresolved identifier") {
						unresolved = true
					}
				}
				fc.errors = fc.errors[:n0]
				if unresolved {
					if fc.dry == 0 {
						fc.notes = appendUnique(fc.notes, fmt.Sprintf("optional invariant of loop %d dropped (it names a variable this loop does not have): %s", lp.ord, cl.Text))
					}
					continue
				}
			}
			kept = append(kept, cl)
		}
		invs = kept
	}
	if fc.dry == 0 && len(invs) == 0 {
		fc.notes = append(fc.notes, fmt.Sprintf("loop %d at %s has no invariant (variables assigned in it are havoc'd)", lp.ord, fc.pos(lp.stmt)))
	}
	// 1. invariants hold on entry
	if fc.dry == 0 {
		for i, cl := range invs {
			fc.oblige(st, fmt.Sprintf("inv-entry#%d/%s", lp.ord, label(i, cl)), "inv-entry", c.tagsFor(cl), trClause(st, cl), "loop invariant on entry: "+cl.Text, lp.stmt)
		}
	}
	// 2. modified set by dry run
	nScansAtHead := len(st.scans)
	iter := func(s *State, check bool) (exit *State, outs []Outcome) {
		var m0 []string
		if check {
			for _, cl := range decs {
				m0 = append(m0, trClause(s, cl))
			}
		}
		ct, couts := lp.cond(s)
		outs = append(outs, couts...)
		if k, ok := fc.takeOutcome(s); ok {
			return nil, append(outs, Outcome{Kind: k, St: s})
		}
		exit = s.clone()
		exit.addAssume(not(ct))
		b := s
		b.addAssume(ct)
		if lp.pre != nil {
			lp.pre(b)
		}
		// snapshot at the start of the body, for `loop N body` clauses (atHead(e))
		headSnap := b.clone()
		for _, o := range fc.execBlock(b, lp.body.List) {
			switch o.Kind {
			case ONormal, OContinue:
				ends := []Outcome{{Kind: ONormal, St: o.St}}
				if lp.post != nil {
					ends = lp.post(o.St)
				}
				for _, e := range ends {
					if e.Kind != ONormal {
						outs = append(outs, e)
						continue
					}
					if check {
						// scanners created inside this iteration end with it: protocol obligation here
						if tags := c.Opts["scan-complete"]; tags != "" {
							for si := nScansAtHead; si < len(e.St.scans); si++ {
								f := fc.readKey(e.St, e.St.scans[si]+".failed", types.Typ[types.Bool])
								fc.oblige(e.St, fmt.Sprintf("scan-complete#L%d.%d", lp.ord, si-nScansAtHead), "scan-complete", strings.Fields(tags), not(f.T),
									"scanner created in the loop body stopped only at end of input, or its error was reported", lp.stmt)
							}
						}
						fc.applyUses(e.St, "use-loop", lp.ord, lp.bodyPos, lp.stmt)
						for i, cl := range c.loopClauses("body", lp.ord) {
							fc.headEnv, fc.headFresh = headSnap.env, headSnap.fresh
							// body clauses see the locals declared in the loop body
							savedPos := lp.bodyPos
							lp.bodyPos = lp.body.Rbrace - 1
							t := trClause(e.St, cl)
							lp.bodyPos = savedPos
							fc.headEnv, fc.headFresh = nil, nil
							fc.oblige(e.St, fmt.Sprintf("body#%d/%s", lp.ord, label(i, cl)), "loop-body", c.tagsFor(cl), t, "effect of one iteration: "+cl.Text, lp.stmt)
						}
						for i, cl := range invs {
							fc.oblige(e.St, fmt.Sprintf("inv-keep#%d/%s", lp.ord, label(i, cl)), "inv-keep", c.tagsFor(cl), trClause(e.St, cl), "loop invariant preserved: "+cl.Text, lp.stmt)
						}
						for i, cl := range decs {
							m1 := trClause(e.St, cl)
							fc.oblige(e.St, fmt.Sprintf("decreases#%d/%s", lp.ord, label(i, cl)), "decreases", c.tagsFor(cl),
								"(and (>= "+m0[i]+" 0) (< "+m1+" "+m0[i]+"))", "loop measure decreases and is bounded below: "+cl.Text, lp.stmt)
						}
					} else {
						outs = append(outs, Outcome{Kind: OContinue, St: e.St})
					}
				}
			case OBreak:
				if check {
					// `loop N leave` clauses: the state in which a break statement leaves the loop
					for i, cl := range c.loopClauses("leave", lp.ord) {
						fc.headEnv, fc.headFresh = headSnap.env, headSnap.fresh
						savedPos := lp.bodyPos
						lp.bodyPos = lp.body.Rbrace - 1
						t := trClause(o.St, cl)
						lp.bodyPos = savedPos
						fc.headEnv, fc.headFresh = nil, nil
						fc.oblige(o.St, fmt.Sprintf("leave#%d/%s", lp.ord, label(i, cl)), "loop-body", c.tagsFor(cl), t, "state at a break out of the loop: "+cl.Text, lp.stmt)
					}
				}
				outs = append(outs, Outcome{Kind: ONormal, St: o.St})
			default:
				outs = append(outs, o)
			}
		}
		return exit, outs
	}
	fc.dry++
	dry := st.clone()
	dexit, douts := iter(dry, false)
	fc.dry--
	mod := map[string]Val{}
	diff := func(s *State) {
		if s == nil {
			return
		}
		for k, v := range s.env {
			if strings.HasPrefix(k, "$") {
				continue
			}
			if ov, ok := st.env[k]; !ok || ov.T != v.T || ov.Rec != v.Rec {
				mod[k] = v
			}
		}
	}
	diff(dexit)
	for _, o := range douts {
		diff(o.St)
	}
	// 3. havoc + assume invariants
	h := st
	// objects that exist before the loop (their cells may not be materialised yet: a map that
	// is still empty has no arrays in the environment)
	knownRec := map[string]bool{}
	for r := range st.fresh {
		knownRec[r] = true
	}
	for k, v := range st.env {
		if i := strings.Index(k, "."); i > 0 {
			knownRec[k[:i]] = true
		}
		if v.Rec != "" {
			knownRec[v.Rec] = true
		}
	}
	for _, k := range sortedKeysVal(mod) {
		v := mod[k]
		old, had := st.env[k]
		if !had {
			old = v
		}
		// records/buffers allocated inside the body are local to an iteration
		if (!had) && (strings.HasPrefix(k, "rec_") || strings.HasPrefix(k, "buf_") || strings.HasPrefix(k, "map_") || strings.HasPrefix(k, "scan_")) {
			rec := k
			if i := strings.Index(k, "."); i > 0 {
				rec = k[:i]
			}
			if !knownRec[rec] {
				continue
			}
		}
		switch old.S {
		case SInt, SBool, SStr, SSL, SIL:
			h.env[k] = fc.freshVal(h, "h_"+k, old.S, old.GT)
		case SRec, SMap, SBuf, SScan:
			nv := fc.freshVal(h, "h_"+k, old.S, old.GT)
			if old.S == SBuf {
				h.env[nv.Rec] = fc.freshVal(h, "hb", SStr, nil)
			}
			h.env[k] = nv
		case SOpaque:
			if old.Raw != "" {
				n := fc.freshName("h_" + k)
				fc.decls = append(fc.decls, fmt.Sprintf("(declare-const %s %s)", n, old.Raw))
				h.env[k] = Val{T: n, S: SOpaque, Raw: old.Raw}
			}
		}
	}
	for _, cl := range invs {
		h.addAssume(trClause(h, cl))
	}
	// the ghost index of a range loop starts at 0 and only grows
	if iv, ok := h.env[fmt.Sprintf("rangeIndex%d", lp.ord)]; ok {
		h.addAssume("(>= " + iv.T + " 0)")
	}
	if fc.dry == 0 {
		fc.applyUses(h, "use-loop", lp.ord, lp.bodyPos, lp.stmt)
	}
	// 4. one symbolic iteration from the havoc'd state
	exit, outs := iter(h, fc.dry == 0)
	var res []Outcome
	if exit != nil {
		res = append(res, Outcome{Kind: ONormal, St: exit})
	}
	for _, o := range outs {
		if o.Kind == OContinue { // only in dry mode
			continue
		}
		res = append(res, o)
	}
	return res
}

func sortedKeysVal(m map[string]Val) []string {
	var ks []string
	for k := range m {
		ks = append(ks, k)
	}
	sortStrings(ks)
	return ks
}

func (fc *FnCtx) execFor(st *State, x *ast.ForStmt) []Outcome {
	if x.Init != nil {
		outs := fc.execStmt(st, x.Init)
		if len(outs) != 1 || outs[0].Kind != ONormal {
			fc.errorf("%s: loop init with control flow not supported", fc.pos(x))
			return outs
		}
		st = outs[0].St
	}
	lp := loopParts{stmt: x, ord: fc.loopOrdinal(x), body: x.Body, bodyPos: x.Body.Lbrace + 1}
	lp.cond = func(s *State) (string, []Outcome) {
		if x.Cond == nil {
			return "true", nil
		}
		return fc.tr(s, x.Cond).T, nil
	}
	if x.Post != nil {
		lp.post = func(s *State) []Outcome { return fc.execStmt(s, x.Post) }
	}
	return fc.runLoop(st, lp)
}

func (fc *FnCtx) execRange(st *State, x *ast.RangeStmt) []Outcome {
	xs := fc.tr(st, x.X)
	ord := fc.loopOrdinal(x)
	idxKey := fmt.Sprintf("$range%d", ord)
	// "$" keys are skipped by the dry-run diff, so use a plain ghost key
	idxKey = fmt.Sprintf("rangeIndex%d", ord)
	st.env[idxKey] = intVal("0")
	lp := loopParts{stmt: x, ord: ord, body: x.Body, bodyPos: x.Body.Lbrace + 1}
	bind := func(s *State, e ast.Expr, v Val) {
		if e == nil {
			return
		}
		if id, ok := e.(*ast.Ident); ok && id.Name == "_" {
			return
		}
		fc.assign(s, e, v)
	}
	xt := fc.typeOf(x.X)
	isString := false
	if xt != nil {
		if b, ok := xt.Underlying().(*types.Basic); ok && b.Info()&types.IsString != 0 {
			isString = true
		}
	}
	switch {
	case xs.S == SStr && isString && x.Value != nil:
		// range over a string by rune: position advances by the UTF-8 width
		wKey := fmt.Sprintf("rangeWidth%d", ord)
		lp.cond = func(s *State) (string, []Outcome) {
			i := s.env[idxKey]
			return "(< " + i.T + " (slen " + xs.T + "))", nil
		}
		lp.pre = func(s *State) {
			i := s.env[idxKey]
			b0 := "(at " + xs.T + " " + i.T + ")"
			r := fc.freshVal(s, "rune", SInt, types.Typ[types.Rune])
			w := fc.freshVal(s, "width", SInt, nil)
			s.addAssume("(=> (< " + b0 + " 128) (and (= " + r.T + " " + b0 + ") (= " + w.T + " 1)))")
			s.addAssume("(=> (>= " + b0 + " 128) (and (>= " + r.T + " 128) (<= " + r.T + " 1114111) (>= " + w.T + " 1) (<= " + w.T + " 4) (<= (+ " + i.T + " " + w.T + ") (slen " + xs.T + "))))")
			s.env[wKey] = w
			bind(s, x.Key, i)
			bind(s, x.Value, r)
		}
		lp.post = func(s *State) []Outcome {
			i := s.env[idxKey]
			w := s.env[wKey]
			s.env[idxKey] = intVal("(+ " + i.T + " " + w.T + ")")
			return one(ONormal, s)
		}
	case xs.S == SOL:
		lenT := xs.T
		lp.cond = func(s *State) (string, []Outcome) {
			i := s.env[idxKey]
			return "(< " + i.T + " " + lenT + ")", nil
		}
		lp.pre = func(s *State) {
			i := s.env[idxKey]
			bind(s, x.Key, i)
			if x.Value != nil {
				et := fc.typeOf(x.Value)
				bind(s, x.Value, fc.freshVal(s, "elem", sortOf(et), et))
			}
		}
		lp.post = func(s *State) []Outcome {
			i := s.env[idxKey]
			s.env[idxKey] = intVal("(+ " + i.T + " 1)")
			return one(ONormal, s)
		}
	case xs.S == SStr || xs.S == SSL || xs.S == SIL:
		lenT := fc.lenOf(st, xs, x).T
		lp.cond = func(s *State) (string, []Outcome) {
			i := s.env[idxKey]
			return "(< " + i.T + " " + lenT + ")", nil
		}
		lp.pre = func(s *State) {
			i := s.env[idxKey]
			bind(s, x.Key, i)
			switch xs.S {
			case SStr:
				bind(s, x.Value, Val{T: "(at " + xs.T + " " + i.T + ")", S: SInt, GT: types.Typ[types.Uint8]})
			case SSL:
				bind(s, x.Value, Val{T: "(sat_ " + xs.T + " " + i.T + ")", S: SStr})
			case SIL:
				bind(s, x.Value, Val{T: "(select (ints " + xs.T + ") " + i.T + ")", S: SInt})
			}
		}
		lp.post = func(s *State) []Outcome {
			i := s.env[idxKey]
			s.env[idxKey] = intVal("(+ " + i.T + " 1)")
			return one(ONormal, s)
		}
	case xs.S == SMap:
		// unordered iteration over the key set: each iteration sees some key present in
		// the map; nothing is assumed about order or count (no termination measure)
		more := ""
		lp.cond = func(s *State) (string, []Outcome) {
			more = fc.declare("map_more", SBool)
			return more, nil
		}
		lp.pre = func(s *State) {
			ks, vs, et, ok := mapSorts(xs.GT)
			var kt types.Type
			if m, isMap := xs.GT.Underlying().(*types.Map); isMap {
				kt = m.Key()
			}
			k := fc.freshVal(s, "mapkey", ks, kt)
			if ok {
				s.addAssume(fc.mapHas(s, xs, k))
				bind(s, x.Key, k)
				if x.Value != nil {
					bind(s, x.Value, fc.mapRead(s, xs, k, et))
				}
			} else {
				bind(s, x.Key, k)
				if x.Value != nil {
					bind(s, x.Value, fc.freshVal(s, "mapval", vs, et))
				}
			}
		}
	default:
		fc.errorf("%s: unsupported range over %s", fc.pos(x), exprString(x.X))
		lp.cond = func(s *State) (string, []Outcome) { return fc.declare("range_more", SBool), nil }
	}
	return fc.runLoop(st, lp)
}
