package main

// scan-bytes-escape (C17): the slice returned by (*bufio.Scanner).Bytes() points into the
// scanner's buffer and is overwritten by a later Scan(). Keeping it - or a sub-slice of it that
// some function handed back - beyond the iteration silently corrupts earlier lines once the
// input is longer than the buffer (4096 bytes at first). The condition generator treats byte
// slices as values, so this aliasing is invisible to the SMT obligations; it is checked here,
// per function with a scanner protocol obligation (`opt scan-complete`), by a flow-insensitive
// taint analysis over the AST:
//   sources  : X.Bytes() with X a *bufio.Scanner
//   carriers : variables assigned from a tainted expression; results of type []byte of calls
//              that receive a tainted argument (they may return a sub-slice of it)
//   cleaners : conversion to string, append([]byte{} / []byte(nil) / nil, t...), bytes.Clone,
//              slices.Clone, anything whose result is not a byte slice
//   sinks    : append(xs, t) as an ELEMENT, xs[i] = t, m[k] = t, x.f = t, a composite literal
//              element, a return value
// One obligation per function, `<qname>/scan-bytes-escape`.

import (
	"fmt"
	"go/ast"
	"go/types"
	"strings"
)

func (r *Run) scanBytesObligation(fc *FnCtx, tags []string) *Obligation {
	ob := &Obligation{Name: fc.qname + "/scan-bytes-escape", Func: fc.qname, Kind: "scan-bytes-escape", Tags: tags, Solver: "ast", Status: "discharged",
		Descr: "no slice obtained from Scanner.Bytes() is kept beyond the iteration (stored, appended as an element, returned) without being copied"}
	if fc.body == nil || fc.pkg == nil {
		return ob
	}
	info := fc.pkg.TypesInfo
	isScannerBytes := func(e ast.Expr) bool {
		c, ok := e.(*ast.CallExpr)
		if !ok {
			return false
		}
		se, ok := c.Fun.(*ast.SelectorExpr)
		if !ok || se.Sel.Name != "Bytes" {
			return false
		}
		t := info.TypeOf(se.X)
		return t != nil && isNamed(t, "bufio", "Scanner")
	}
	tainted := map[types.Object]bool{}
	var isTainted func(e ast.Expr) bool
	isTainted = func(e ast.Expr) bool {
		switch x := e.(type) {
		case nil:
			return false
		case *ast.ParenExpr:
			return isTainted(x.X)
		case *ast.Ident:
			return tainted[info.ObjectOf(x)]
		case *ast.SliceExpr:
			return isTainted(x.X)
		case *ast.CallExpr:
			if isScannerBytes(x) {
				return true
			}
			// conversions
			if tv, ok := info.Types[x.Fun]; ok && tv.IsType() {
				if len(x.Args) == 1 && isByteSlice(tv.Type) {
					return isTainted(x.Args[0]) // []byte(t) of a byte slice is the same slice
				}
				return false
			}
			if id, ok := x.Fun.(*ast.Ident); ok && id.Name == "append" && len(x.Args) >= 1 {
				// append(dst, t...) copies the bytes of t into dst: tainted only if dst is
				if x.Ellipsis.IsValid() {
					return isTainted(x.Args[0])
				}
				return isTainted(x.Args[0])
			}
			if se, ok := x.Fun.(*ast.SelectorExpr); ok {
				if pk, ok := se.X.(*ast.Ident); ok {
					if pn, ok := info.Uses[pk].(*types.PkgName); ok {
						p := pn.Imported().Path()
						if (p == "bytes" || p == "slices") && se.Sel.Name == "Clone" {
							return false
						}
					}
				}
			}
			// any other call: its []byte result may be a sub-slice of a tainted argument
			rt := info.TypeOf(x)
			resultHasBytes := false
			switch tt := rt.(type) {
			case *types.Tuple:
				for i := 0; i < tt.Len(); i++ {
					if isByteSlice(tt.At(i).Type()) || isByteSliceSlice(tt.At(i).Type()) {
						resultHasBytes = true
					}
				}
			default:
				if rt != nil && (isByteSlice(rt) || isByteSliceSlice(rt)) {
					resultHasBytes = true
				}
			}
			if !resultHasBytes {
				return false
			}
			for _, a := range x.Args {
				if isTainted(a) {
					return true
				}
			}
		}
		return false
	}
	// carriers: fixpoint over assignments
	for changed := true; changed; {
		changed = false
		ast.Inspect(fc.body, func(n ast.Node) bool {
			as, ok := n.(*ast.AssignStmt)
			if !ok {
				return true
			}
			mark := func(l ast.Expr) {
				if id, ok := l.(*ast.Ident); ok {
					if o := info.ObjectOf(id); o != nil && !tainted[o] {
						if t := o.Type(); t != nil && (isByteSlice(t) || isByteSliceSlice(t)) {
							tainted[o] = true
							changed = true
						}
					}
				}
			}
			if len(as.Rhs) == 1 && len(as.Lhs) > 1 {
				if isTainted(as.Rhs[0]) {
					for _, l := range as.Lhs {
						mark(l)
					}
				}
				return true
			}
			for i, rh := range as.Rhs {
				if i < len(as.Lhs) && isTainted(rh) {
					// xs = append(xs, t) with t as an element taints nothing new here (sink below)
					if c, ok := rh.(*ast.CallExpr); ok {
						if id, ok := c.Fun.(*ast.Ident); ok && id.Name == "append" && !c.Ellipsis.IsValid() {
							continue
						}
					}
					mark(as.Lhs[i])
				}
			}
			return true
		})
	}
	var bad []string
	pos := func(n ast.Node) string {
		p := fc.pkg.Fset.Position(n.Pos())
		return fmt.Sprintf("%s:%d", shortFile(p.Filename), p.Line)
	}
	ast.Inspect(fc.body, func(n ast.Node) bool {
		switch x := n.(type) {
		case *ast.CallExpr:
			if id, ok := x.Fun.(*ast.Ident); ok && id.Name == "append" && !x.Ellipsis.IsValid() {
				for _, a := range x.Args[1:] {
					if isTainted(a) {
						bad = append(bad, "appended as an element at "+pos(x)+": "+exprString(a))
					}
				}
			}
		case *ast.AssignStmt:
			for i, l := range x.Lhs {
				switch l.(type) {
				case *ast.IndexExpr, *ast.SelectorExpr:
					if i < len(x.Rhs) && isTainted(x.Rhs[i]) {
						bad = append(bad, "stored at "+pos(x)+": "+exprString(l)+" = "+exprString(x.Rhs[i]))
					}
				}
			}
		case *ast.CompositeLit:
			for _, el := range x.Elts {
				v := el
				if kv, ok := el.(*ast.KeyValueExpr); ok {
					v = kv.Value
				}
				if isTainted(v) {
					bad = append(bad, "composite literal element at "+pos(x)+": "+exprString(v))
				}
			}
		case *ast.ReturnStmt:
			for _, rv := range x.Results {
				if isTainted(rv) {
					bad = append(bad, "returned at "+pos(x)+": "+exprString(rv))
				}
			}
		case *ast.FuncLit:
			return false
		}
		return true
	})
	if len(bad) > 0 {
		ob.Status = "failed"
		ob.FailStatus = "aliasing"
		ob.Detail = "a slice of the scanner's buffer outlives the iteration: " + strings.Join(uniqSorted(bad), "; ")
	}
	return ob
}
