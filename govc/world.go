package main

// Loading /repo (working tree, -tags verif), collecting contracts, spec functions,
// functions under contract.

import (
	"path/filepath"
	"fmt"
	"go/ast"
	"go/token"
	"go/types"
	"os"
	"sort"
	"strings"

	"golang.org/x/tools/go/packages"
)

type SpecFunc struct {
	fn        *types.Func
	decl      *ast.FuncDecl
	pkg       *packages.Package
	smtName   string
	params    []string
	psorts    []Sort
	rsort     Sort
	body      string
	recursive bool
	deps      map[*SpecFunc]bool
	err       string
	done      bool
	axioms    []string // extra (wf) axioms
	opaque    bool     // uninterpreted for the prover (executable in Go only)
}

type World struct {
	repo       string
	pkgs       []*packages.Package
	pkgByPath  map[string]*packages.Package
	fset       *token.FileSet
	cs         *ContractSet
	externs    map[string]*Contract
	specFuncs  map[*types.Func]*SpecFunc
	specByName map[string]*SpecFunc
	specList   []*SpecFunc
	varAlias   map[string]string
	needItoa   bool
	needHex    bool
	needFsRead bool
	needDynRe  bool
	loadErrors []string
	funcs      map[string]*FuncSite // pkgpath::Recv.Name -> site
	regexVars  map[string]string    // objKey of package-level regex var -> pattern literal
	regexVarNames []string
	regexByName map[string]string
	regexInfos map[string]*RegexInfo
	localRegex map[string]string // pkgname.Func:var -> literal
	cg         *CallGraph
	regexIDs   map[string]string
	placeholders map[string]bool
	sentinels    map[string]bool
}

type FuncSite struct {
	pkg  *packages.Package
	decl *ast.FuncDecl
	lit  *ast.FuncLit
	name string
}

func sortStrings(s []string) { sort.Strings(s) }

func isVerifFile(name string) bool {
	return strings.HasSuffix(name, "_verif.go")
}

func loadWorld(repo string) (*World, error) {
	w := &World{repo: repo, pkgByPath: map[string]*packages.Package{}, externs: map[string]*Contract{},
		specFuncs: map[*types.Func]*SpecFunc{}, specByName: map[string]*SpecFunc{}, varAlias: map[string]string{}, funcs: map[string]*FuncSite{}}
	cfg := &packages.Config{
		Mode:       packages.NeedName | packages.NeedSyntax | packages.NeedTypes | packages.NeedTypesInfo | packages.NeedFiles | packages.NeedImports | packages.NeedDeps | packages.NeedCompiledGoFiles,
		Dir:        repo,
		BuildFlags: []string{"-tags=verif", "-mod=mod"},
		Env:        append(os.Environ(), "GOFLAGS=-mod=mod", "GOPROXY=off", "GOSUMDB=off", "GOTOOLCHAIN=local"),
	}
	pkgs, err := packages.Load(cfg, "./...")
	if err != nil {
		return nil, err
	}
	for _, p := range pkgs {
		for _, e := range p.Errors {
			w.loadErrors = append(w.loadErrors, e.Error())
		}
	}
	if len(w.loadErrors) > 0 {
		return w, fmt.Errorf("package load errors:\n%s", strings.Join(w.loadErrors, "\n"))
	}
	w.pkgs = pkgs
	w.cs = &ContractSet{byKey: map[string]*Contract{}}
	for _, p := range pkgs {
		w.pkgByPath[p.PkgPath] = p
		w.fset = p.Fset
	}
	for _, p := range pkgs {
		for _, f := range p.Syntax {
			fname := p.Fset.Position(f.Pos()).Filename
			if isVerifFile(fname) {
				if err := parseContractComments(w.cs, p.Fset, p.PkgPath, f); err != nil {
					return w, err
				}
				for _, d := range f.Decls {
					fd, ok := d.(*ast.FuncDecl)
					if !ok || fd.Recv != nil || fd.Body == nil {
						continue
					}
					nm := fd.Name.Name
					if strings.HasPrefix(nm, "Lemma") || strings.HasPrefix(nm, "lemma") {
						w.funcs[p.PkgPath+"::"+nm] = &FuncSite{pkg: p, decl: fd, name: nm}
					}
					if strings.HasPrefix(nm, "Opaque") {
						fn := p.TypesInfo.Defs[fd.Name].(*types.Func)
						sf := &SpecFunc{fn: fn, decl: fd, pkg: p, smtName: "op_" + sanitize(pkgShort(p.PkgPath)) + "_" + nm, deps: map[*SpecFunc]bool{}, opaque: true}
						w.specFuncs[fn] = sf
						w.specByName[p.Name+"."+nm] = sf
						w.specList = append(w.specList, sf)
					}
					if strings.HasPrefix(nm, "Spec") || strings.HasPrefix(nm, "spec") {
						fn := p.TypesInfo.Defs[fd.Name].(*types.Func)
						sf := &SpecFunc{fn: fn, decl: fd, pkg: p, smtName: "sp_" + sanitize(pkgShort(p.PkgPath)) + "_" + nm, deps: map[*SpecFunc]bool{}}
						w.specFuncs[fn] = sf
						w.specByName[p.Name+"."+nm] = sf
						w.specList = append(w.specList, sf)
					}
				}
				continue
			}
			if strings.HasSuffix(fname, "_test.go") {
				continue
			}
			// package-level var aliases: var x = otherpkg.Y
			for _, d := range f.Decls {
				switch dd := d.(type) {
				case *ast.GenDecl:
					if dd.Tok != token.VAR {
						continue
					}
					for _, sp := range dd.Specs {
						vs := sp.(*ast.ValueSpec)
						// package-level initialisers containing function literals (cobra commands)
						for i, nm := range vs.Names {
							if i >= len(vs.Values) {
								continue
							}
							var body []ast.Stmt
							ast.Inspect(vs.Values[i], func(n ast.Node) bool {
								if fl, ok := n.(*ast.FuncLit); ok {
									body = append(body, fl.Body)
									return false
								}
								return true
							})
							if len(body) > 0 {
								fd := &ast.FuncDecl{Name: nm, Type: &ast.FuncType{Params: &ast.FieldList{}}, Body: &ast.BlockStmt{Lbrace: vs.Pos(), List: body, Rbrace: vs.End()}}
								w.funcs[p.PkgPath+"::var:"+nm.Name] = &FuncSite{pkg: p, decl: fd, name: "var:" + nm.Name}
							}
						}
						for i, nm := range vs.Names {
							if i < len(vs.Values) {
								if se, ok := vs.Values[i].(*ast.SelectorExpr); ok {
									if id, ok := se.X.(*ast.Ident); ok {
										if _, isPkg := p.TypesInfo.Uses[id].(*types.PkgName); isPkg {
											if o := p.TypesInfo.Defs[nm]; o != nil {
												w.varAlias[objKey(o)] = id.Name + "." + se.Sel.Name
											}
										}
									}
								}
							}
						}
					}
				case *ast.FuncDecl:
					if dd.Body == nil {
						continue
					}
					name := dd.Name.Name
					if dd.Recv != nil && len(dd.Recv.List) > 0 {
						t := dd.Recv.List[0].Type
						if se, ok := t.(*ast.StarExpr); ok {
							t = se.X
						}
						if id, ok := t.(*ast.Ident); ok {
							name = id.Name + "." + name
						}
					}
					if name == "init" && dd.Recv == nil {
						// a package may have one init per file: keep them apart
						name = "init@" + strings.TrimSuffix(filepath.Base(fname), ".go")
					}
					w.funcs[p.PkgPath+"::"+name] = &FuncSite{pkg: p, decl: dd, name: name}
					// closures, numbered in source order
					k := 0
					ast.Inspect(dd.Body, func(n ast.Node) bool {
						if fl, ok := n.(*ast.FuncLit); ok {
							w.funcs[fmt.Sprintf("%s::%s#%d", p.PkgPath, name, k)] = &FuncSite{pkg: p, lit: fl, name: fmt.Sprintf("%s#%d", name, k)}
							k++
						}
						return true
					})
				}
			}
		}
	}
	for _, c := range w.cs.Contracts {
		if c.Extern {
			if prev := w.externs[c.Func]; prev != nil {
				return w, fmt.Errorf("%s:%d: extern contract for %s is already declared at %s:%d", c.File, c.Line, c.Func, prev.File, prev.Line)
			}
			w.externs[c.Func] = c
		}
	}
	w.regexByName = map[string]string{}
	w.regexInfos = map[string]*RegexInfo{}
	w.regexIDs = map[string]string{}
	w.localRegex = map[string]string{}
	w.collectRegexVars()
	for key, site := range w.funcs {
		if site.decl == nil || isVerifFile(site.pkg.Fset.Position(site.decl.Pos()).Filename) {
			continue
		}
		_ = key
		ast.Inspect(site.decl.Body, func(n ast.Node) bool {
			as, ok := n.(*ast.AssignStmt)
			if !ok {
				return true
			}
			for i, l := range as.Lhs {
				if id, ok := l.(*ast.Ident); ok && i < len(as.Rhs) {
					if lit, ok := mustCompileLiteral(site.pkg.TypesInfo, as.Rhs[i]); ok {
						w.localRegex[site.pkg.Name+"."+site.name+":"+id.Name] = lit
					}
				}
			}
			return true
		})
	}
	for _, sf := range w.specList {
		w.translateSpec(sf)
	}
	return w, nil
}

func (w *World) useSpec(sf *SpecFunc) {}

// newFnCtx prepares the verification context for a function site.
func (w *World) newFnCtx(site *FuncSite, c *Contract) *FnCtx {
	fc := &FnCtx{w: w, pkg: site.pkg, name: site.name, contract: c,
		initial: map[string]Val{}, obls: map[string]*Obligation{}, loopOrd: map[ast.Stmt]int{}, siteOrd: map[ast.Node]int{},
		siteCount: map[string]int{}, unmodelled: map[string]bool{}, externs: map[string]bool{}, regexUsed: map[string]bool{}}
	fc.qname = pkgShort(site.pkg.PkgPath) + "." + site.name
	if site.decl != nil {
		fc.decl = site.decl
		fc.ftype = site.decl.Type
		fc.body = site.decl.Body
		fc.sig = site.pkg.TypesInfo.Defs[site.decl.Name].Type().(*types.Signature)
	} else {
		fc.lit = site.lit
		fc.ftype = site.lit.Type
		fc.body = site.lit.Body
		fc.sig = site.pkg.TypesInfo.TypeOf(site.lit).(*types.Signature)
	}
	// loop ordinals in source order, not descending into closures
	n := 0
	var walk func(node ast.Node) bool
	walk = func(node ast.Node) bool {
		switch x := node.(type) {
		case *ast.FuncLit:
			if x != fc.lit {
				return false
			}
		case *ast.ForStmt:
			fc.loopOrd[x] = n
			n++
		case *ast.RangeStmt:
			fc.loopOrd[x] = n
			n++
		}
		return true
	}
	ast.Inspect(fc.body, walk)
	fc.nloops = n
	for i := 0; i < fc.sig.Results().Len(); i++ {
		r := fc.sig.Results().At(i)
		if r.Name() != "" && r.Name() != "_" {
			fc.resultKeys = append(fc.resultKeys, objKey(r))
		} else {
			fc.resultKeys = append(fc.resultKeys, fmt.Sprintf("result%d", i))
		}
	}
	return fc
}

// ---- spec functions -------------------------------------------------------------

func (w *World) translateSpec(sf *SpecFunc) {
	if sf.done {
		return
	}
	sf.done = true
	sig := sf.fn.Type().(*types.Signature)
	if sig.Results().Len() != 1 {
		sf.err = "spec function must have exactly one result"
		return
	}
	sf.rsort = sortOf(sig.Results().At(0).Type())
	if sf.opaque {
		for i := 0; i < sig.Params().Len(); i++ {
			pp := sig.Params().At(i)
			sf.params = append(sf.params, fmt.Sprintf("p%d_%s", i, sanitize(pp.Name())))
			sf.psorts = append(sf.psorts, sortOf(pp.Type()))
		}
		return
	}
	fc := &FnCtx{w: w, pkg: sf.pkg, name: sf.fn.Name(), qname: "spec:" + sf.fn.Name(),
		initial: map[string]Val{}, obls: map[string]*Obligation{}, loopOrd: map[ast.Stmt]int{}, siteOrd: map[ast.Node]int{},
		siteCount: map[string]int{}, unmodelled: map[string]bool{}, externs: map[string]bool{}, regexUsed: map[string]bool{}}
	fc.specMode = sf
	st := &State{env: map[string]Val{}, fresh: map[string]bool{}}
	for i := 0; i < sig.Params().Len(); i++ {
		p := sig.Params().At(i)
		s := sortOf(p.Type())
		switch s {
		case SInt, SBool, SStr, SSL, SIL:
		default:
			sf.err = fmt.Sprintf("parameter %s: unsupported sort", p.Name())
			return
		}
		bn := fmt.Sprintf("p%d_%s", i, sanitize(p.Name()))
		sf.params = append(sf.params, bn)
		sf.psorts = append(sf.psorts, s)
		st.env[objKey(p)] = Val{T: bn, S: s, GT: p.Type()}
	}
	body := fc.specStmts(st, sf.decl.Body.List)
	if len(fc.errors) > 0 {
		sf.err = strings.Join(fc.errors, "; ")
		return
	}
	if len(st.assume) > 0 {
		sf.err = "spec function body introduced definitions"
		return
	}
	sf.body = body
}

// specStmts folds a restricted statement list into one term.
func (fc *FnCtx) specStmts(st *State, stmts []ast.Stmt) string {
	if len(stmts) == 0 {
		fc.errorf("spec function: missing return")
		return "0"
	}
	switch x := stmts[0].(type) {
	case *ast.ReturnStmt:
		if len(x.Results) != 1 {
			fc.errorf("spec function: return needs one value")
			return "0"
		}
		return fc.tr(st, x.Results[0]).T
	case *ast.IfStmt:
		if x.Init != nil {
			fc.errorf("spec function: if with init not supported")
			return "0"
		}
		c := fc.tr(st, x.Cond).T
		thenStmts := append(append([]ast.Stmt{}, x.Body.List...), stmts[1:]...)
		thenT := fc.specStmts(st.clone(), thenStmts)
		var elseStmts []ast.Stmt
		if x.Else != nil {
			switch e := x.Else.(type) {
			case *ast.BlockStmt:
				elseStmts = append(elseStmts, e.List...)
			case *ast.IfStmt:
				elseStmts = append(elseStmts, e)
			}
		}
		elseStmts = append(elseStmts, stmts[1:]...)
		elseT := fc.specStmts(st.clone(), elseStmts)
		return "(ite " + c + " " + thenT + " " + elseT + ")"
	case *ast.AssignStmt:
		if x.Tok != token.DEFINE && x.Tok != token.ASSIGN {
			fc.errorf("spec function: unsupported assignment")
			return "0"
		}
		fc.execAssign(st, x)
		return fc.specStmts(st, stmts[1:])
	case *ast.DeclStmt:
		fc.execStmt(st, x)
		return fc.specStmts(st, stmts[1:])
	case *ast.SwitchStmt:
		// switch tag { case a, b: return ...; default: return ... } followed by rest
		var tag *Val
		if x.Tag != nil {
			v := fc.tr(st, x.Tag)
			tag = &v
		}
		var deflt []ast.Stmt
		hasDefault := false
		type arm struct {
			cond string
			body []ast.Stmt
		}
		var arms []arm
		for _, cs := range x.Body.List {
			cc := cs.(*ast.CaseClause)
			if cc.List == nil {
				deflt = cc.Body
				hasDefault = true
				continue
			}
			var alts []string
			for _, e := range cc.List {
				v := fc.tr(st, e)
				if tag != nil {
					alts = append(alts, "(= "+tag.T+" "+v.T+")")
				} else {
					alts = append(alts, v.T)
				}
			}
			c := alts[0]
			if len(alts) > 1 {
				c = "(or " + strings.Join(alts, " ") + ")"
			}
			arms = append(arms, arm{c, cc.Body})
		}
		_ = hasDefault
		rest := fc.specStmts(st.clone(), append(append([]ast.Stmt{}, deflt...), stmts[1:]...))
		for i := len(arms) - 1; i >= 0; i-- {
			t := fc.specStmts(st.clone(), append(append([]ast.Stmt{}, arms[i].body...), stmts[1:]...))
			rest = "(ite " + arms[i].cond + " " + t + " " + rest + ")"
		}
		return rest
	}
	fc.errorf("spec function: unsupported statement %T", stmts[0])
	return "0"
}

// specText renders declarations/definitions of all spec functions reachable from text.
func (w *World) specText(text string) string {
	used := map[*SpecFunc]bool{}
	var visit func(s string)
	visit = func(s string) {
		for _, sf := range w.specList {
			if used[sf] || sf.err != "" {
				continue
			}
			if containsSym(s, sf.smtName) {
				used[sf] = true
				visit(sf.body)
			}
		}
	}
	visit(text)
	if len(used) == 0 {
		return ""
	}
	// dependency graph among used
	deps := map[*SpecFunc][]*SpecFunc{}
	for sf := range used {
		for _, o := range w.specList {
			if used[o] && containsSym(sf.body, o.smtName) {
				deps[sf] = append(deps[sf], o)
			}
		}
	}
	// recursive = on a cycle
	onCycle := map[*SpecFunc]bool{}
	for sf := range used {
		seen := map[*SpecFunc]bool{}
		var dfs func(x *SpecFunc) bool
		dfs = func(x *SpecFunc) bool {
			for _, d := range deps[x] {
				if d == sf {
					return true
				}
				if !seen[d] {
					seen[d] = true
					if dfs(d) {
						return true
					}
				}
			}
			return false
		}
		if dfs(sf) {
			onCycle[sf] = true
		}
	}
	var b strings.Builder
	sig := func(sf *SpecFunc) (string, string) {
		var ps, ss []string
		for i, p := range sf.params {
			ps = append(ps, "("+p+" "+sf.psorts[i].smt()+")")
			ss = append(ss, sf.psorts[i].smt())
		}
		return strings.Join(ps, " "), strings.Join(ss, " ")
	}
	var ordered []*SpecFunc
	for _, sf := range w.specList {
		if used[sf] {
			ordered = append(ordered, sf)
		}
	}
	for _, sf := range ordered {
		if sf.opaque || (os.Getenv("GOVC_MACRO") == "" && len(sf.params) > 0) {
			onCycle[sf] = true
		}
		if onCycle[sf] {
			_, ss := sig(sf)
			fmt.Fprintf(&b, "(declare-fun %s (%s) %s)\n", sf.smtName, ss, sf.rsort.smt())
		}
	}
	// define-funs in dependency order
	emitted := map[*SpecFunc]bool{}
	var emit func(sf *SpecFunc)
	emit = func(sf *SpecFunc) {
		if emitted[sf] || onCycle[sf] {
			return
		}
		emitted[sf] = true
		for _, d := range deps[sf] {
			emit(d)
		}
		ps, _ := sig(sf)
		fmt.Fprintf(&b, "(define-fun %s (%s) %s %s)\n", sf.smtName, ps, sf.rsort.smt(), sf.body)
	}
	// define-funs used by recursive axioms must precede them; recursive functions are declared already
	for _, sf := range ordered {
		emit(sf)
	}
	for _, sf := range ordered {
		if !onCycle[sf] {
			continue
		}
		ps, _ := sig(sf)
		app := "(" + sf.smtName + " " + strings.Join(sf.params, " ") + ")"
		if !sf.opaque {
			fmt.Fprintf(&b, "(assert (forall (%s) (! (= %s %s) :pattern (%s))))\n", ps, app, sf.body, app)
		}
		// well-formedness of the result is only asserted for opaque (uninterpreted) functions:
		// there it is a consistent assumption; for defined functions it would be an unproved
		// claim that can contradict the definition on ill-formed arguments
		if sf.opaque && (sf.rsort == SStr || sf.rsort == SSL) {
			var wfs []string
			for i, p := range sf.params {
				if t := wfOf(p, sf.psorts[i], nil); t != "true" {
					wfs = append(wfs, t)
				}
			}
			fmt.Fprintf(&b, "(assert (forall (%s) (! %s :pattern (%s))))\n", ps, implies(and(wfs...), wfOf(app, sf.rsort, nil)), app)
		}
	}
	return b.String()
}

func containsSym(text, sym string) bool {
	i := 0
	for {
		j := strings.Index(text[i:], sym)
		if j < 0 {
			return false
		}
		k := i + j + len(sym)
		if k >= len(text) || !isSymChar(text[k]) {
			if i+j == 0 || !isSymChar(text[i+j-1]) {
				return true
			}
		}
		i = i + j + 1
	}
}

func isSymChar(c byte) bool {
	return (c >= 'a' && c <= 'z') || (c >= 'A' && c <= 'Z') || (c >= '0' && c <= '9') || c == '_'
}


// sentinelErrors: package-level variables of the repository declared as
// `var ErrX = errors.New(...)` / `fmt.Errorf(...)` and assigned nowhere else.
func (w *World) sentinelErrors() map[string]bool {
	if w.sentinels != nil {
		return w.sentinels
	}
	out := map[string]bool{}
	objs := map[types.Object]string{}
	for _, p := range w.pkgs {
		for _, f := range p.Syntax {
			for _, d := range f.Decls {
				gd, ok := d.(*ast.GenDecl)
				if !ok || gd.Tok != token.VAR {
					continue
				}
				for _, sp := range gd.Specs {
					vs := sp.(*ast.ValueSpec)
					for i, nm := range vs.Names {
						if i >= len(vs.Values) {
							continue
						}
						c, ok := vs.Values[i].(*ast.CallExpr)
						if !ok {
							continue
						}
						se, ok := c.Fun.(*ast.SelectorExpr)
						if !ok {
							continue
						}
						pk, ok := se.X.(*ast.Ident)
						if !ok {
							continue
						}
						if pn, ok := p.TypesInfo.Uses[pk].(*types.PkgName); ok {
							ip := pn.Imported().Path()
							if (ip == "errors" && se.Sel.Name == "New") || (ip == "fmt" && se.Sel.Name == "Errorf") {
								if o := p.TypesInfo.Defs[nm]; o != nil {
									objs[o] = objKey(o)
									out[objKey(o)] = true
								}
							}
						}
					}
				}
			}
		}
	}
	// any assignment to one of them anywhere voids the fact
	for _, p := range w.pkgs {
		for _, f := range p.Syntax {
			ast.Inspect(f, func(n ast.Node) bool {
				as, ok := n.(*ast.AssignStmt)
				if !ok {
					return true
				}
				for _, l := range as.Lhs {
					var id *ast.Ident
					switch x := l.(type) {
					case *ast.Ident:
						id = x
					case *ast.SelectorExpr:
						id = x.Sel
					}
					if id != nil {
						if k, ok := objs[p.TypesInfo.ObjectOf(id)]; ok {
							delete(out, k)
						}
					}
				}
				return true
			})
		}
	}
	w.sentinels = out
	return out
}
