package main

// Executable contracts ("rtc", DESIGN 2.7).
//
// Every `requires` / `ensures` clause of a contract is also a Go expression.  For the
// functions whose parameters can be enumerated (strings, byte slices, ints, bools,
// lists of strings) govc compiles the clauses MECHANICALLY into Go predicates, injects
// them next to the real function with `go test -overlay`, and runs the real function on
// every input of a finite domain: inputs that satisfy the requires-clauses must give
// results that satisfy the ensures-clauses and must not panic.
//
// What this adds to the SMT route:
//   * a failing INPUT replayed on the real code when a change breaks a postcondition
//     (the solvers return `unknown`, not models, on quantified goals);
//   * an independent cross-check of the condition generator: a postcondition that govc
//     "proves" but the running code contradicts is an engine defect, found here;
//   * the ASSUMED contracts (library functions, assumed lemmas) are at least validated
//     against the real library on the same kind of domain.
// It is a bounded stand-in (reported under `bounded`, never counted as proved).
//
// The executable subset is determined by the compiler, not by hand: each clause becomes
// its own Go function; the file is compiled once with `-gcflags=-e`, every clause function
// the compiler rejects (ghost state such as fsWrites(), called(), locals, ...) is dropped
// and listed as "not executable", and the rest runs.

import (
	"bytes"
	"encoding/json"
	"fmt"
	"go/ast"
	"go/parser"
	"go/printer"
	"go/token"
	"go/types"
	"os"
	"os/exec"
	"path/filepath"
	"regexp"
	"sort"
	"strconv"
	"strings"
	"sync"
	"time"

	"golang.org/x/tools/go/packages"
)

type rtcVar struct {
	Name  string
	GoT   string // Go type as written in the harness (contract type: []byte is string, [][]byte is []string)
	Conv  string // conversion applied when handing the harness value to the real function ("" none)
	Back  string // conversion applied to a result of the real function
	Kind  string // string int bool byte strings uint8 other
	Fixed string // fixed Go expression (rtc arg NAME = expr)
}

type rtcClause struct {
	cl    *Clause
	kind  string // req ens
	idx   int
	fn    string // name of the generated Go function
	src   string // generated Go source of the function
	lo    int    // first line in the generated file
	hi    int
	alive bool
	why   string
}

type rtcFunc struct {
	c        *Contract
	pkg      *packages.Package
	qname    string
	ident    string
	params   []rtcVar
	results  []rtcVar
	call     string // Go expression calling the real function with harness parameter names
	noCall   bool   // lemma: nothing to call
	clauses  []*rtcClause
	olds     []string // Go source of hoisted old(...) expressions
	tokens   []string
	maxTok   int
	skip     string
	imports  map[string]string // path -> name ("" default)
	callLo   int
	callHi   int
	tags     []string
	ncases   int
}

// ---- type mapping ------------------------------------------------------------------------

func isByteSlice(t types.Type) bool {
	s, ok := t.Underlying().(*types.Slice)
	if !ok {
		return false
	}
	b, ok := s.Elem().Underlying().(*types.Basic)
	return ok && b.Kind() == types.Uint8
}

func isByteSliceSlice(t types.Type) bool {
	s, ok := t.Underlying().(*types.Slice)
	return ok && isByteSlice(s.Elem())
}

func isStringSlice(t types.Type) bool {
	s, ok := t.Underlying().(*types.Slice)
	if !ok {
		return false
	}
	b, ok := s.Elem().Underlying().(*types.Basic)
	return ok && b.Kind() == types.String
}

func (rf *rtcFunc) typeString(t types.Type) string {
	return types.TypeString(t, func(p *types.Package) string {
		if p.Path() == rf.pkg.PkgPath {
			return ""
		}
		rf.imports[p.Path()] = ""
		return p.Name()
	})
}

func (rf *rtcFunc) mapVar(name string, t types.Type, isParam bool) rtcVar {
	v := rtcVar{Name: name}
	switch {
	case isByteSlice(t):
		v.GoT, v.Kind = "string", "string"
		v.Conv = "[]byte(%s)"
		v.Back = "string(%s)"
	case isByteSliceSlice(t):
		v.GoT, v.Kind = "[]string", "strings"
		v.Conv = "zzToBB(%s)"
		v.Back = "zzToSS(%s)"
	case isStringSlice(t):
		v.GoT, v.Kind = "[]string", "strings"
	default:
		if b, ok := t.Underlying().(*types.Basic); ok {
			switch {
			case b.Kind() == types.String:
				v.GoT, v.Kind = rf.typeString(t), "string"
			case b.Kind() == types.Bool:
				v.GoT, v.Kind = rf.typeString(t), "bool"
			case b.Kind() == types.Uint8:
				v.GoT, v.Kind = rf.typeString(t), "byte"
			case b.Info()&types.IsInteger != 0:
				v.GoT, v.Kind = rf.typeString(t), "int"
			}
		}
		if v.Kind == "" {
			v.GoT, v.Kind = rf.typeString(t), "other"
		}
	}
	return v
}

// ---- clause compilation ------------------------------------------------------------------

var rtcRename = map[string]string{
	"forall": "zzForall", "exists": "zzExists", "byteStr": "zzByteStr", "itoa": "zzItoa", "noNL": "zzNoNL",
	"reMatch": "zzReMatch", "reGroup": "zzReGroup", "isNil": "zzIsNil",
}

// rewriteClause turns a contract expression into Go: implies/ite become lazy, == becomes
// zzEq (slices, []byte vs string, untyped constants), old(e) is hoisted, the arguments of
// spec functions that take []byte / [][]byte are converted.
func (rf *rtcFunc) rewriteClause(e ast.Expr) ast.Expr {
	var rw func(n ast.Expr) ast.Expr
	call := func(name string, args ...ast.Expr) ast.Expr {
		return &ast.CallExpr{Fun: ast.NewIdent(name), Args: args}
	}
	thunk := func(t string, body ast.Expr) ast.Expr {
		return &ast.FuncLit{Type: &ast.FuncType{Params: &ast.FieldList{}, Results: &ast.FieldList{List: []*ast.Field{{Type: ast.NewIdent(t)}}}},
			Body: &ast.BlockStmt{List: []ast.Stmt{&ast.ReturnStmt{Results: []ast.Expr{body}}}}}
	}
	rw = func(n ast.Expr) ast.Expr {
		switch x := n.(type) {
		case nil:
			return nil
		case *ast.ParenExpr:
			return &ast.ParenExpr{X: rw(x.X)}
		case *ast.BinaryExpr:
			a, b := rw(x.X), rw(x.Y)
			if x.Op == token.EQL {
				return call("zzEq", a, b)
			}
			if x.Op == token.NEQ {
				return &ast.UnaryExpr{Op: token.NOT, X: call("zzEq", a, b)}
			}
			return &ast.BinaryExpr{X: a, Op: x.Op, Y: b}
		case *ast.UnaryExpr:
			return &ast.UnaryExpr{Op: x.Op, X: rw(x.X)}
		case *ast.IndexExpr:
			return &ast.IndexExpr{X: rw(x.X), Index: rw(x.Index)}
		case *ast.SliceExpr:
			return &ast.SliceExpr{X: rw(x.X), Low: rw(x.Low), High: rw(x.High), Max: rw(x.Max), Slice3: x.Slice3}
		case *ast.SelectorExpr:
			if id, ok := x.X.(*ast.Ident); ok {
				rf.noteImport(id.Name)
			}
			return &ast.SelectorExpr{X: rw(x.X), Sel: x.Sel}
		case *ast.StarExpr:
			return &ast.StarExpr{X: rw(x.X)}
		case *ast.FuncLit:
			// quantifier bodies: func(i int) bool { return e }
			nb := &ast.BlockStmt{}
			for _, s := range x.Body.List {
				if r, ok := s.(*ast.ReturnStmt); ok {
					var rs []ast.Expr
					for _, re := range r.Results {
						rs = append(rs, rw(re))
					}
					nb.List = append(nb.List, &ast.ReturnStmt{Results: rs})
				} else {
					nb.List = append(nb.List, s)
				}
			}
			return &ast.FuncLit{Type: x.Type, Body: nb}
		case *ast.CallExpr:
			if id, ok := x.Fun.(*ast.Ident); ok {
				switch {
				case id.Name == "implies" && len(x.Args) == 2:
					return &ast.ParenExpr{X: &ast.BinaryExpr{X: &ast.UnaryExpr{Op: token.NOT, X: &ast.ParenExpr{X: rw(x.Args[0])}}, Op: token.LOR, Y: &ast.ParenExpr{X: rw(x.Args[1])}}}
				case id.Name == "iteS" && len(x.Args) == 3:
					return call("zzIteS", rw(x.Args[0]), thunk("string", rw(x.Args[1])), thunk("string", rw(x.Args[2])))
				case id.Name == "ite" && len(x.Args) == 3:
					return call("zzIte", rw(x.Args[0]), thunk("any", rw(x.Args[1])), thunk("any", rw(x.Args[2])))
				case id.Name == "old" && len(x.Args) == 1:
					var buf bytes.Buffer
					printer.Fprint(&buf, token.NewFileSet(), rw(x.Args[0]))
					rf.olds = append(rf.olds, buf.String())
					return ast.NewIdent(fmt.Sprintf("zzold%d", len(rf.olds)-1))
				}
			}
			var args []ast.Expr
			for _, a := range x.Args {
				args = append(args, rw(a))
			}
			fun := x.Fun
			var callee *types.Func
			switch f := x.Fun.(type) {
			case *ast.Ident:
				if nn, ok := rtcRename[f.Name]; ok {
					fun = ast.NewIdent(nn)
				} else if o := rf.pkg.Types.Scope().Lookup(f.Name); o != nil {
					callee, _ = o.(*types.Func)
				}
			case *ast.SelectorExpr:
				if id, ok := f.X.(*ast.Ident); ok {
					rf.noteImport(id.Name)
					if ip := rf.importedPkg(id.Name); ip != nil {
						if o := ip.Scope().Lookup(f.Sel.Name); o != nil {
							callee, _ = o.(*types.Func)
						}
					}
				} else {
					fun = rw(x.Fun)
				}
			}
			var out ast.Expr = &ast.CallExpr{Fun: fun, Args: args, Ellipsis: x.Ellipsis}
			if callee != nil {
				sig := callee.Type().(*types.Signature)
				for i := range args {
					if i < sig.Params().Len() {
						pt := sig.Params().At(i).Type()
						if isByteSlice(pt) {
							args[i] = call("zzToB", args[i])
						} else if isByteSliceSlice(pt) {
							args[i] = call("zzToBB", args[i])
						} else if isStringSlice(pt) {
							args[i] = call("zzToSS", args[i])
						}
					}
				}
				out = &ast.CallExpr{Fun: fun, Args: args, Ellipsis: x.Ellipsis}
				if sig.Results().Len() == 1 {
					rt := sig.Results().At(0).Type()
					if isByteSlice(rt) {
						out = call("string", out)
					} else if isByteSliceSlice(rt) {
						out = call("zzToSS", out)
					}
				}
			}
			return out
		}
		return n
	}
	return rw(e)
}

func (rf *rtcFunc) importedPkg(name string) *types.Package {
	for _, f := range rf.pkg.Syntax {
		for _, im := range f.Imports {
			p, _ := strconv.Unquote(im.Path.Value)
			ip := rf.pkg.Imports[p]
			if ip == nil || ip.Types == nil {
				continue
			}
			n := ip.Types.Name()
			if im.Name != nil {
				n = im.Name.Name
			}
			if n == name {
				return ip.Types
			}
		}
	}
	return nil
}

func (rf *rtcFunc) noteImport(name string) {
	for _, f := range rf.pkg.Syntax {
		for _, im := range f.Imports {
			p, _ := strconv.Unquote(im.Path.Value)
			ip := rf.pkg.Imports[p]
			if ip == nil || ip.Types == nil {
				continue
			}
			n := ip.Types.Name()
			alias := ""
			if im.Name != nil {
				n = im.Name.Name
				alias = n
			}
			if n == name {
				rf.imports[p] = alias
				return
			}
		}
	}
}

func exprSrc(e ast.Expr) string {
	var buf bytes.Buffer
	printer.Fprint(&buf, token.NewFileSet(), e)
	return buf.String()
}

// ---- building the per-function harness -----------------------------------------------------

var rtcTokRe = regexp.MustCompile(`"(?:[^"\\]|\\.)*"`)

// harvestTokens: byte and string literals of the function body, of the contract clauses and
// of the spec functions they mention (transitively): the alphabet the code distinguishes.
func (w *World) harvestTokens(rf *rtcFunc, body ast.Node) []string {
	seen := map[string]bool{}
	var toks []string
	add := func(s string) {
		if s == "" || len(s) > 6 || seen[s] {
			return
		}
		seen[s] = true
		toks = append(toks, s)
	}
	var visitNode func(n ast.Node)
	specSeen := map[string]bool{}
	visitNode = func(n ast.Node) {
		if n == nil {
			return
		}
		ast.Inspect(n, func(m ast.Node) bool {
			switch x := m.(type) {
			case *ast.BasicLit:
				switch x.Kind {
				case token.CHAR:
					if r, _, _, err := strconv.UnquoteChar(x.Value[1:len(x.Value)-1], '\''); err == nil && r < 128 {
						add(string(rune(r)))
					}
				case token.STRING:
					if s, err := strconv.Unquote(x.Value); err == nil {
						if len(s) <= 3 {
							add(s)
						}
					}
				}
			case *ast.Ident:
				for _, sf := range w.specList {
					if sf.fn.Name() == x.Name && !specSeen[sf.smtName] && (sf.pkg == rf.pkg || ast.IsExported(x.Name)) {
						specSeen[sf.smtName] = true
						visitNode(sf.decl.Body)
					}
				}
			}
			return true
		})
	}
	for _, cl := range rf.c.Clauses {
		if cl.Expr != nil && (cl.Kind == "requires" || cl.Kind == "ensures") {
			visitNode(cl.Expr)
		}
	}
	visitNode(body)
	sort.SliceStable(toks, func(i, j int) bool { return len(toks[i]) < len(toks[j]) })
	if len(toks) > 7 {
		toks = toks[:7]
	}
	for _, d := range []string{"a", "b", " ", "\n", "/", "."} {
		if len(toks) >= 4 && seen["a"] {
			break
		}
		if !seen[d] {
			seen[d] = true
			toks = append(toks, d)
		}
	}
	return toks
}

func (w *World) rtcOptions(c *Contract, rf *rtcFunc) (recv string, fixed map[string]string) {
	fixed = map[string]string{}
	for _, cl := range c.Clauses {
		if cl.Kind != "rtc" {
			continue
		}
		t := strings.TrimSpace(cl.Text)
		switch {
		case strings.HasPrefix(t, "off"):
			rf.skip = "switched off: " + strings.TrimSpace(t[3:])
		case strings.HasPrefix(t, "recv "):
			recv = strings.TrimSpace(t[5:])
		case strings.HasPrefix(t, "arg "):
			r := strings.TrimSpace(t[4:])
			if i := strings.Index(r, "="); i > 0 {
				fixed[strings.TrimSpace(r[:i])] = strings.TrimSpace(r[i+1:])
			}
		case strings.HasPrefix(t, "tokens"):
			rf.tokens = nil
			for _, q := range rtcTokRe.FindAllString(t, -1) {
				if s, err := strconv.Unquote(q); err == nil {
					rf.tokens = append(rf.tokens, s)
				}
			}
		case strings.HasPrefix(t, "max="):
			rf.maxTok, _ = strconv.Atoi(t[4:])
		case strings.HasPrefix(t, "import "):
			f := strings.Fields(t[7:])
			if len(f) == 1 {
				p, _ := strconv.Unquote(f[0])
				rf.imports[p] = ""
			}
		}
	}
	return
}

// stdFunc finds pkgname.Func among everything that was loaded.
func (w *World) stdFunc(key string) *types.Func {
	key = strings.SplitN(key, "/", 2)[0]
	parts := strings.Split(key, ".")
	if len(parts) != 2 {
		return nil
	}
	var found *types.Func
	seen := map[string]bool{}
	var visit func(p *packages.Package)
	visit = func(p *packages.Package) {
		if p == nil || seen[p.PkgPath] || found != nil {
			return
		}
		seen[p.PkgPath] = true
		if p.Types != nil && p.Types.Name() == parts[0] && !strings.Contains(p.PkgPath, "internal") {
			if o := p.Types.Scope().Lookup(parts[1]); o != nil {
				if f, ok := o.(*types.Func); ok {
					found = f
					return
				}
			}
		}
		for _, ip := range p.Imports {
			visit(ip)
		}
	}
	for _, p := range w.pkgs {
		visit(p)
	}
	return found
}

// placeholderSpecs: Opaque* functions whose Go body is a constant (they exist only so that
// the contract files compile; their meaning is carried by assumed lemmas), and every spec
// function that mentions one. A clause that mentions them cannot be evaluated.
func (w *World) placeholderSpecs() map[string]bool {
	if w.placeholders != nil {
		return w.placeholders
	}
	ph := map[string]bool{}
	for _, sf := range w.specList {
		if !sf.opaque || sf.decl.Body == nil || len(sf.decl.Body.List) != 1 {
			continue
		}
		if r, ok := sf.decl.Body.List[0].(*ast.ReturnStmt); ok && len(r.Results) == 1 {
			switch x := r.Results[0].(type) {
			case *ast.Ident:
				if x.Name == "true" || x.Name == "false" || x.Name == "nil" {
					ph[sf.fn.Name()] = true
				}
			case *ast.BasicLit:
				ph[sf.fn.Name()] = true
			}
		}
	}
	for changed := true; changed; {
		changed = false
		for _, sf := range w.specList {
			if ph[sf.fn.Name()] || sf.decl.Body == nil {
				continue
			}
			ast.Inspect(sf.decl.Body, func(n ast.Node) bool {
				if id, ok := n.(*ast.Ident); ok && ph[id.Name] {
					ph[sf.fn.Name()] = true
					changed = true
				}
				return true
			})
		}
	}
	w.placeholders = ph
	return ph
}

func (w *World) newRtcFunc(c *Contract) *rtcFunc {
	rf := &rtcFunc{c: c, pkg: w.pkgByPath[c.Pkg], qname: pkgShort(c.Pkg) + "." + c.Func, imports: map[string]string{}}
	rf.ident = sanitize(c.Func)
	if rf.pkg == nil {
		rf.skip = "package not loaded"
		return rf
	}
	tagset := map[string]bool{}
	for _, t := range c.Tags {
		tagset[t] = true
	}
	for _, cl := range c.Clauses {
		for _, t := range cl.Tags {
			tagset[t] = true
		}
	}
	rf.tags = sortedKeys(tagset)
	if strings.Contains(c.Func, "#") {
		rf.skip = "closure"
		return rf
	}
	recvExpr, fixed := w.rtcOptions(c, rf)
	if rf.skip != "" {
		return rf
	}
	for _, src := range append([]string{recvExpr}, mapValues(fixed)...) {
		if src == "" {
			continue
		}
		if e, err := parser.ParseExpr(src); err == nil {
			ast.Inspect(e, func(n ast.Node) bool {
				if se, ok := n.(*ast.SelectorExpr); ok {
					if id, ok := se.X.(*ast.Ident); ok {
						rf.noteImport(id.Name)
					}
				}
				return true
			})
		}
	}
	var sig *types.Signature
	var body ast.Node
	var pnames []string
	switch {
	case c.Extern:
		fn := w.stdFunc(c.Func)
		if fn == nil {
			rf.skip = "library function not found by name (method or not loaded)"
			return rf
		}
		sig = fn.Type().(*types.Signature)
		rf.imports[fn.Pkg().Path()] = ""
		pnames = c.Params
		n := sig.Params().Len()
		if sig.Variadic() {
			if len(pnames) < n-1 {
				rf.skip = "parameter names missing"
				return rf
			}
		} else if len(pnames) != n {
			rf.skip = "parameter names do not match the signature"
			return rf
		}
		rf.call = fn.Pkg().Name() + "." + fn.Name()
	default:
		site := w.funcs[c.Pkg+"::"+c.Func]
		if site == nil || site.decl == nil {
			rf.skip = "function not found"
			return rf
		}
		fn, _ := site.pkg.TypesInfo.Defs[site.decl.Name].(*types.Func)
		if fn == nil {
			rf.skip = "no type information"
			return rf
		}
		sig = fn.Type().(*types.Signature)
		body = site.decl.Body
		// the function is going to be RUN on made-up arguments: only when it cannot touch the
		// file system, start processes, use the network or end the process
		for _, class := range []string{"fswrite", "fsread", "exit", "fatal", "exec", "selfupdate", "net"} {
			if w.reachesEffect(c.Pkg+"::"+c.Func, class) {
				rf.skip = "reaches an effect of class " + class + " (not run on enumerated arguments)"
				return rf
			}
		}
		for i := 0; i < sig.Params().Len(); i++ {
			n := sig.Params().At(i).Name()
			if n == "" || n == "_" {
				n = fmt.Sprintf("zzp%d", i)
			}
			pnames = append(pnames, n)
		}
		rf.call = fn.Name()
		if r := sig.Recv(); r != nil {
			rn := r.Name()
			if rn == "" || rn == "_" {
				rn = "zzrecv"
			}
			rv := rf.mapVar(rn, r.Type(), true)
			rv.Kind = "other"
			rv.GoT = rf.typeString(r.Type())
			if recvExpr != "" {
				rv.Fixed = recvExpr
			} else {
				// a zero-value receiver would make the method panic for reasons no caller can cause
				rf.skip = "method: the receiver needs a constructor (give `rtc recv <expr>`)"
				return rf
			}
			rf.params = append(rf.params, rv)
			rf.call = rn + "." + fn.Name()
		}
		if c.Lemma {
			rf.noCall = true
		}
	}
	// parameters
	var args []string
	for i := 0; i < len(pnames); i++ {
		var t types.Type
		if i < sig.Params().Len() && !(sig.Variadic() && i >= sig.Params().Len()-1) {
			t = sig.Params().At(i).Type()
		} else {
			t = sig.Params().At(sig.Params().Len() - 1).Type().(*types.Slice).Elem()
		}
		v := rf.mapVar(pnames[i], t, true)
		if fx, ok := fixed[v.Name]; ok {
			v.Fixed = fx
			v.GoT = rf.typeString(t)
			v.Conv, v.Back = "", ""
			v.Kind = "other"
		}
		if v.Kind == "other" && v.Fixed == "" {
			rf.skip = fmt.Sprintf("parameter %s has type %s (no enumerable domain; give `rtc arg %s = <expr>`)", v.Name, v.GoT, v.Name)
			return rf
		}
		rf.params = append(rf.params, v)
		a := v.Name
		if v.Conv != "" {
			a = fmt.Sprintf(v.Conv, v.Name)
		}
		args = append(args, a)
	}
	rf.call += "(" + strings.Join(args, ", ") + ")"
	// results
	for i := 0; i < sig.Results().Len(); i++ {
		n := sig.Results().At(i).Name()
		if i < len(c.Results) {
			n = c.Results[i]
		}
		if n == "" || n == "_" {
			n = fmt.Sprintf("zzr%d", i)
		}
		rf.results = append(rf.results, rf.mapVar(n, sig.Results().At(i).Type(), false))
	}
	if rf.tokens == nil {
		rf.tokens = w.harvestTokens(rf, body)
	}
	// clauses
	for _, cl := range c.Clauses {
		if cl.Kind != "requires" && cl.Kind != "ensures" {
			continue
		}
		e, err := parser.ParseExpr(cl.Text)
		if err != nil {
			continue
		}
		k := "ens"
		if cl.Kind == "requires" {
			k = "req"
		}
		rc := &rtcClause{cl: cl, kind: k, idx: len(rf.clauses), alive: true}
		rc.fn = fmt.Sprintf("zzrtc_%s_%s%d", rf.ident, k, rc.idx)
		before := len(rf.olds)
		ge := rf.rewriteClause(e)
		if k == "req" && len(rf.olds) > before {
			rf.olds = rf.olds[:before]
			rc.alive, rc.why = false, "old() in a precondition"
		}
		rc.src = exprSrc(ge)
		ph := w.placeholderSpecs()
		ast.Inspect(e, func(n ast.Node) bool {
			if id, ok := n.(*ast.Ident); ok && ph[id.Name] && rc.alive {
				rc.alive, rc.why = false, "mentions "+id.Name+", which is uninterpreted (its Go body is a placeholder)"
			}
			return true
		})
		if k == "req" && !rc.alive && rf.skip == "" {
			rf.skip = "a precondition is not executable (" + cl.Text + "): " + rc.why
		}
		rf.clauses = append(rf.clauses, rc)
	}
	return rf
}

func (rf *rtcFunc) paramDecl(withResults, withOlds bool) string {
	var ps []string
	for _, p := range rf.params {
		ps = append(ps, p.Name+" "+p.GoT)
	}
	if withResults {
		for _, r := range rf.results {
			ps = append(ps, r.Name+" "+r.GoT)
		}
	}
	if withOlds {
		for i := range rf.olds {
			ps = append(ps, fmt.Sprintf("zzold%d any", i))
		}
	}
	return strings.Join(ps, ", ")
}

func (rf *rtcFunc) argList(withResults, withOlds bool) string {
	var ps []string
	for _, p := range rf.params {
		ps = append(ps, p.Name)
	}
	if withResults {
		for _, r := range rf.results {
			ps = append(ps, r.Name)
		}
	}
	if withOlds {
		for i := range rf.olds {
			ps = append(ps, fmt.Sprintf("zzold%d", i))
		}
	}
	return strings.Join(ps, ", ")
}

// domain sizes: the largest token count that keeps the number of cases under the budget.
func (rf *rtcFunc) chooseBound(budget int) {
	nstr, nint, nbool, nbyte, nlist := 0, 0, 0, 0, 0
	for _, p := range rf.params {
		if p.Fixed != "" {
			continue
		}
		switch p.Kind {
		case "string":
			nstr++
		case "int":
			nint++
		case "bool":
			nbool++
		case "byte":
			nbyte++
		case "strings":
			nlist++
		}
	}
	a := len(rf.tokens)
	count := func(n int) float64 {
		s := 0.0
		pw := 1.0
		for i := 0; i <= n; i++ {
			s += pw
			pw *= float64(a)
		}
		total := 1.0
		for i := 0; i < nstr; i++ {
			total *= s
		}
		for i := 0; i < nint; i++ {
			total *= float64(n*3 + 3)
		}
		for i := 0; i < nbool; i++ {
			total *= 2
		}
		for i := 0; i < nbyte; i++ {
			total *= 256
		}
		for i := 0; i < nlist; i++ {
			// lists of at most 3 single tokens (or empty strings)
			l := float64(a + 1)
			total *= 1 + l + l*l + l*l*l
		}
		return total
	}
	n := 1
	for n < 8 && count(n+1) <= float64(budget) {
		n++
	}
	if rf.maxTok > 0 && rf.maxTok < n {
		n = rf.maxTok
	}
	rf.maxTok = n
}

// emit writes the harness of one function; line numbers are tracked for error attribution.
func (rf *rtcFunc) emit(b *lineBuilder, phaseDriver bool) {
	b.printf("// ---- %s\n", rf.qname)
	for _, rc := range rf.clauses {
		if !rc.alive {
			continue
		}
		rc.lo = b.line
		b.printf("func %s(%s) bool {\n\treturn %s\n}\n", rc.fn, rf.paramDecl(rc.kind == "ens", rc.kind == "ens"), rc.src)
		rc.hi = b.line
	}
	rf.callLo = b.line
	for i, o := range rf.olds {
		b.printf("func zzrtc_%s_old%d(%s) any {\n\treturn zzCopy(%s)\n}\n", rf.ident, i, rf.paramDecl(false, false), o)
	}
	for i, p := range rf.params {
		if p.Fixed != "" {
			b.printf("func zzrtc_%s_fixed%d() %s {\n\treturn %s\n}\n", rf.ident, i, p.GoT, p.Fixed)
		}
	}
	if !rf.noCall {
		var rdecl, rnames []string
		for _, r := range rf.results {
			rdecl = append(rdecl, r.Name+" "+r.GoT)
			rnames = append(rnames, r.Name)
		}
		rdecl = append(rdecl, "zzpanic any")
		b.printf("func zzrtc_%s_call(%s) (%s) {\n", rf.ident, rf.paramDecl(false, false), strings.Join(rdecl, ", "))
		b.printf("\tdefer func() {\n\t\tif x := recover(); x != nil {\n\t\t\tzzpanic = x\n\t\t}\n\t}()\n")
		if len(rf.results) == 0 {
			b.printf("\t%s\n", rf.call)
		} else {
			var tmp []string
			for i := range rf.results {
				tmp = append(tmp, fmt.Sprintf("zzt%d", i))
			}
			b.printf("\t%s := %s\n", strings.Join(tmp, ", "), rf.call)
			for i, r := range rf.results {
				if r.Back != "" {
					b.printf("\t%s = %s\n", r.Name, fmt.Sprintf(r.Back, tmp[i]))
				} else {
					b.printf("\t%s = %s\n", r.Name, tmp[i])
				}
			}
		}
		b.printf("\treturn\n}\n")
	}
	if phaseDriver {
		b.printf("func zzrtc_%s_drive() (cases, checked, evalPanics int, fails map[string][2]string) {\n", rf.ident)
		b.printf("\tfails = map[string][2]string{}\n")
		b.printf("\ttokens := %#v\n\t_ = tokens\n", rf.tokens)
		depth := 1
		ind := func() string { return strings.Repeat("\t", depth) }
		maxLen := 0
		for _, t := range rf.tokens {
			if len(t) > maxLen {
				maxLen = len(t)
			}
		}
		for _, p := range rf.params {
			if p.Fixed != "" {
				continue
			}
			switch p.Kind {
			case "string":
				b.printf("%sfor _, zzv_%s := range zzStrings(tokens, %d) {\n%s\t%s := %s(zzv_%s)\n", ind(), p.Name, rf.maxTok, ind(), p.Name, p.GoT, p.Name)
			case "int":
				b.printf("%sfor zzv_%s := -1; zzv_%s <= %d; zzv_%s++ {\n%s\t%s := %s(zzv_%s)\n", ind(), p.Name, p.Name, rf.maxTok*maxLen+1, p.Name, ind(), p.Name, p.GoT, p.Name)
			case "bool":
				b.printf("%sfor _, zzv_%s := range []bool{false, true} {\n%s\t%s := %s(zzv_%s)\n", ind(), p.Name, ind(), p.Name, p.GoT, p.Name)
			case "byte":
				b.printf("%sfor zzi_%s := 0; zzi_%s < 256; zzi_%s++ {\n%s\t%s := %s(zzi_%s)\n", ind(), p.Name, p.Name, p.Name, ind(), p.Name, p.GoT, p.Name)
			case "strings":
				b.printf("%sfor _, %s := range zzLists(tokens, 3) {\n", ind(), p.Name)
			}
			depth++
		}
		if depth == 1 {
			b.printf("%sfor zzonce := 0; zzonce < 1; zzonce++ {\n", ind())
			depth++
		}
		for _, p := range rf.params {
			if p.Fixed != "" {
				b.printf("%s%s := %s\n", ind(), p.Name, p.Fixed)
			}
		}
		b.printf("%scases++\n", ind())
		b.printf("%szzin := zzShow(%s)\n%s_ = zzin\n", ind(), rf.showArgs(), ind())
		for _, rc := range rf.clauses {
			if rc.alive && rc.kind == "req" {
				b.printf("%sif ok, pn := zzTry(func() bool { return %s(%s) }); pn || !ok {\n%s\tcontinue\n%s}\n", ind(), rc.fn, rf.argList(false, false), ind(), ind())
			}
		}
		b.printf("%schecked++\n", ind())
		for i := range rf.olds {
			b.printf("%svar zzold%d any\n%szzTry(func() bool { zzold%d = zzrtc_%s_old%d(%s); return true })\n", ind(), i, ind(), i, rf.ident, i, rf.argList(false, false))
		}
		if !rf.noCall {
			var rnames []string
			for _, r := range rf.results {
				rnames = append(rnames, r.Name)
			}
			rnames = append(rnames, "zzpn")
			b.printf("%s%s := zzrtc_%s_call(%s)\n", ind(), strings.Join(rnames, ", "), rf.ident, rf.argList(false, false))
			for _, r := range rf.results {
				b.printf("%s_ = %s\n", ind(), r.Name)
			}
			b.printf("%sif zzpn != nil {\n%s\tif _, seen := fails[\"panic\"]; !seen {\n%s\t\tfails[\"panic\"] = [2]string{zzin, fmt.Sprint(zzpn)}\n%s\t}\n%s\tcontinue\n%s}\n", ind(), ind(), ind(), ind(), ind(), ind())
		}
		for _, rc := range rf.clauses {
			if rc.alive && rc.kind == "ens" {
				key := strconv.Itoa(rc.idx)
				b.printf("%sif _, seen := fails[%q]; !seen {\n", ind(), key)
				b.printf("%s\tif ok, pn := zzTry(func() bool { return %s(%s) }); pn {\n%s\t\tevalPanics++\n%s\t} else if !ok {\n%s\t\tfails[%q] = [2]string{zzin, zzShowRes(%s)}\n%s\t}\n%s}\n",
					ind(), rc.fn, rf.argList(true, true), ind(), ind(), ind(), key, rf.showResults(), ind(), ind())
			}
		}
		for depth > 1 {
			depth--
			b.printf("%s}\n", ind())
		}
		b.printf("\treturn\n}\n")
	}
	rf.callHi = b.line
}

func (rf *rtcFunc) showArgs() string {
	var ps []string
	for _, p := range rf.params {
		if p.Fixed != "" {
			continue
		}
		ps = append(ps, fmt.Sprintf("%q, %s", p.Name, p.Name))
	}
	return strings.Join(ps, ", ")
}

func (rf *rtcFunc) showResults() string {
	var ps []string
	for _, p := range rf.results {
		ps = append(ps, fmt.Sprintf("%q, %s", p.Name, p.Name))
	}
	return strings.Join(ps, ", ")
}

type lineBuilder struct {
	b    strings.Builder
	line int
}

func (lb *lineBuilder) printf(f string, a ...interface{}) {
	s := fmt.Sprintf(f, a...)
	lb.line += strings.Count(s, "\n")
	lb.b.WriteString(s)
}

const rtcRuntime = `
func zzForall(lo, hi int, p func(int) bool) bool {
	for i := lo; i < hi; i++ {
		if !p(i) {
			return false
		}
	}
	return true
}

func zzExists(lo, hi int, p func(int) bool) bool {
	for i := lo; i < hi; i++ {
		if p(i) {
			return true
		}
	}
	return false
}

func zzByteStr(b byte) string { return string([]byte{b}) }
func zzItoa(n int) string     { return strconv.Itoa(n) }
func zzNoNL(s string) bool    { return !strings.Contains(s, "\n") }
func zzReMatch(re *regexp.Regexp, s string) bool { return re.MatchString(s) }
func zzReGroup(re *regexp.Regexp, s string, k int) string {
	m := re.FindStringSubmatch(s)
	if m == nil || k >= len(m) {
		return ""
	}
	return m[k]
}

func zzIsNil(x any) bool {
	if x == nil {
		return true
	}
	v := reflect.ValueOf(x)
	switch v.Kind() {
	case reflect.Ptr, reflect.Map, reflect.Slice, reflect.Func, reflect.Interface, reflect.Chan:
		return v.IsNil()
	}
	return false
}

func zzIteS(c bool, a, b func() string) string {
	if c {
		return a()
	}
	return b()
}

func zzIte(c bool, a, b func() any) any {
	if c {
		return a()
	}
	return b()
}

// zzNorm: one representation per contract-level value (Str, SL, Int, Bool).
func zzNorm(x any) any {
	if x == nil {
		return nil
	}
	v := reflect.ValueOf(x)
	switch v.Kind() {
	case reflect.Int, reflect.Int8, reflect.Int16, reflect.Int32, reflect.Int64:
		return v.Int()
	case reflect.Uint, reflect.Uint8, reflect.Uint16, reflect.Uint32, reflect.Uint64:
		return int64(v.Uint())
	case reflect.String:
		return v.String()
	case reflect.Slice:
		if v.Type().Elem().Kind() == reflect.Uint8 {
			return string(v.Bytes())
		}
		out := make([]any, v.Len())
		for i := range out {
			out[i] = zzNorm(v.Index(i).Interface())
		}
		return out
	case reflect.Ptr, reflect.Map, reflect.Func, reflect.Interface, reflect.Chan:
		if v.IsNil() {
			return nil
		}
	}
	return x
}

func zzEq(a, b any) bool {
	na, nb := zzNorm(a), zzNorm(b)
	la, oka := na.([]any)
	lb, okb := nb.([]any)
	if oka || okb {
		if !oka || !okb {
			// a nil slice against an empty list
			if na == nil && okb {
				return len(lb) == 0
			}
			if nb == nil && oka {
				return len(la) == 0
			}
			return false
		}
		if len(la) != len(lb) {
			return false
		}
		for i := range la {
			if !zzEq(la[i], lb[i]) {
				return false
			}
		}
		return true
	}
	defer func() { recover() }()
	return na == nb
}

func zzToB(x any) []byte {
	switch v := x.(type) {
	case string:
		return []byte(v)
	case []byte:
		return v
	}
	panic("zzToB")
}

func zzToBB(x any) [][]byte {
	switch v := x.(type) {
	case []string:
		out := make([][]byte, len(v))
		for i, s := range v {
			out[i] = []byte(s)
		}
		return out
	case [][]byte:
		return v
	}
	panic("zzToBB")
}

func zzToSS(x any) []string {
	switch v := x.(type) {
	case []string:
		return v
	case [][]byte:
		out := make([]string, len(v))
		for i, s := range v {
			out[i] = string(s)
		}
		return out
	}
	panic("zzToSS")
}

func zzCopy(x any) any {
	switch v := x.(type) {
	case []string:
		return append([]string{}, v...)
	case []byte:
		return string(v)
	case [][]byte:
		return zzToSS(v)
	}
	return x
}

func zzTry(f func() bool) (ok bool, panicked bool) {
	defer func() {
		if r := recover(); r != nil {
			ok, panicked = false, true
		}
	}()
	return f(), false
}

func zzStrings(tokens []string, max int) []string {
	out := []string{""}
	level := []string{""}
	for d := 0; d < max; d++ {
		var next []string
		for _, p := range level {
			for _, t := range tokens {
				next = append(next, p+t)
			}
		}
		out = append(out, next...)
		level = next
	}
	return out
}

func zzBytes(tokens []string) []byte {
	seen := map[byte]bool{}
	var out []byte
	add := func(b byte) {
		if !seen[b] {
			seen[b] = true
			out = append(out, b)
		}
	}
	for _, t := range tokens {
		for i := 0; i < len(t); i++ {
			add(t[i])
		}
	}
	add(0)
	add(255)
	add('z')
	return out
}

func zzLists(tokens []string, max int) [][]string {
	elems := append([]string{""}, tokens...)
	out := [][]string{{}}
	level := [][]string{{}}
	for d := 0; d < max; d++ {
		var next [][]string
		for _, p := range level {
			for _, t := range elems {
				next = append(next, append(append([]string{}, p...), t))
			}
		}
		out = append(out, next...)
		level = next
	}
	return out
}

func zzShow(kv ...any) string {
	var b strings.Builder
	for i := 0; i+1 < len(kv); i += 2 {
		if i > 0 {
			b.WriteString(", ")
		}
		fmt.Fprintf(&b, "%v = %#v", kv[i], kv[i+1])
	}
	return b.String()
}

func zzShowRes(kv ...any) string {
	var b strings.Builder
	for i := 0; i+1 < len(kv); i += 2 {
		if i > 0 {
			b.WriteString(", ")
		}
		if e, ok := kv[i+1].(error); ok && e != nil {
			fmt.Fprintf(&b, "%v = error(%q)", kv[i], e.Error())
		} else {
			fmt.Fprintf(&b, "%v = %#v", kv[i], kv[i+1])
		}
	}
	return "result: " + b.String()
}
`

// ---- batch: one go test per package -------------------------------------------------------

type rtcResult struct {
	Cases, Checked, EvalPanics int
	Fails                      map[string][2]string // clause index or "panic" -> input, message
	Msg                        string
	Exited                     bool
}

type rtcBatch struct {
	once    sync.Once
	results map[string]rtcResult
	err     string
	wall    time.Duration
}

var rtcBatches = map[string]*rtcBatch{}
var rtcMu sync.Mutex

func (r *Run) rtcFile(pkg *packages.Package, fs []*rtcFunc, driver bool) (string, int) {
	lb := &lineBuilder{line: 1}
	imports := map[string]string{"fmt": "", "reflect": "", "regexp": "", "strconv": "", "strings": "", "testing": "", "os": "", "github.com/rs/zerolog": ""}
	for _, rf := range fs {
		for p, a := range rf.imports {
			if _, ok := imports[p]; !ok {
				imports[p] = a
			}
		}
	}
	lb.printf("//go:build verif\n\npackage %s\n\nimport (\n", pkg.Name)
	var ips []string
	for p := range imports {
		ips = append(ips, p)
	}
	sort.Strings(ips)
	for _, p := range ips {
		if imports[p] != "" {
			lb.printf("\t%s %q\n", imports[p], p)
		} else {
			lb.printf("\t%q\n", p)
		}
	}
	lb.printf(")\n\nvar _ = fmt.Sprint\nvar _ = reflect.ValueOf\nvar _ = regexp.MustCompile\nvar _ = strconv.Itoa\nvar _ = strings.Contains\nvar _ = os.Exit\nvar _ = zerolog.Disabled\nvar _ = testing.Short\n")
	// silence "imported and not used" for the packages the clauses may or may not use
	hdr := lb.line
	_ = hdr
	lb.printf("%s\n", rtcRuntime)
	for _, rf := range fs {
		rf.emit(lb, driver)
	}
	if driver {
		lb.printf("func TestZZRtc(t *testing.T) {\n\tzerolog.SetGlobalLevel(zerolog.Disabled)\n")
		for _, rf := range fs {
			lb.printf("\tfmt.Printf(\"ZZRTC-START %%s\\n\", %q)\n\tos.Stdout.Sync()\n", rf.qname)
			lb.printf("\t{\n\t\tc, k, ep, fails := zzrtc_%s_drive()\n\t\tfor key, f := range fails {\n\t\t\tfmt.Printf(\"ZZRTCFAIL %%s clause=%%s input=%%q msg=%%q\\n\", %q, key, f[0], f[1])\n\t\t}\n\t\tfmt.Printf(\"ZZRTC %%s cases=%%d checked=%%d evalpanics=%%d\\n\", %q, c, k, ep)\n\t}\n", rf.ident, rf.qname, rf.qname)
		}
		lb.printf("}\n")
	}
	return lb.b.String(), lb.line
}

var goErrRe = regexp.MustCompile(`(?m)^[^\s:]*zz_rtc_verif_test\.go:(\d+):\d+: (.*)$`)

// unusedImportRe: "<path>" imported and not used
var unusedImportRe = regexp.MustCompile(`"([^"]+)" imported (?:as \S+ )?and not used`)

func (r *Run) runRtcPkg(pkgPath string) *rtcBatch {
	rtcMu.Lock()
	b := rtcBatches[pkgPath]
	if b == nil {
		b = &rtcBatch{results: map[string]rtcResult{}}
		rtcBatches[pkgPath] = b
	}
	rtcMu.Unlock()
	b.once.Do(func() {
		start := time.Now()
		defer func() { b.wall = time.Since(start) }()
		var fs []*rtcFunc
		for _, rf := range r.rtc {
			if rf.c.Pkg == pkgPath && rf.skip == "" && r.rtcSelected[rf.qname] {
				fs = append(fs, rf)
			}
		}
		if len(fs) == 0 {
			return
		}
		pkg := r.w.pkgByPath[pkgPath]
		dir := filepath.Dir(pkg.GoFiles[0])
		tmp := filepath.Join(scratch(), "rtc_"+sanitize(pkgShort(pkgPath)))
		os.MkdirAll(filepath.Join(tmp, "tmp"), 0o755)
		testFile := filepath.Join(tmp, "zz_rtc_verif_test.go")
		ov := map[string]map[string]string{"Replace": {filepath.Join(dir, "zz_rtc_verif_test.go"): testFile}}
		ovb, _ := json.Marshal(ov)
		ovFile := filepath.Join(tmp, "overlay.json")
		os.WriteFile(ovFile, ovb, 0o644)
		env := append(os.Environ(), "GOFLAGS=-mod=mod", "GOPROXY=off", "GOSUMDB=off", "GOTOOLCHAIN=local", "TMPDIR="+filepath.Join(tmp, "tmp"))
		budget := 20000
		if r.tier == "thorough" {
			budget = 400000
		}
		for _, rf := range fs {
			rf.chooseBound(budget)
		}
		// phase A: which clause functions does the compiler accept?
		for round := 0; round < 6; round++ {
			src, _ := r.rtcFile(pkg, fs, false)
			os.WriteFile(testFile, []byte(src), 0o644)
			cmd := exec.Command("go", "vet", "-tags", "verif", "-overlay", ovFile, ".")
			cmd = exec.Command("go", "test", "-tags", "verif", "-overlay", ovFile, "-vet=off", "-gcflags=-e", "-c", "-o", os.DevNull, ".")
			cmd.Dir = dir
			cmd.Env = env
			out, err := cmd.CombinedOutput()
			if err == nil {
				break
			}
			ms := goErrRe.FindAllStringSubmatch(string(out), -1)
			if len(ms) == 0 {
				b.err = "go test -c: " + err.Error() + "\n" + tail(string(out), 2000)
				return
			}
			progress := false
			for _, m := range ms {
				ln, _ := strconv.Atoi(m[1])
				hit := false
				for _, rf := range fs {
					for _, rc := range rf.clauses {
						if rc.alive && ln >= rc.lo && ln <= rc.hi {
							rc.alive, rc.why = false, m[2]
							hit, progress = true, true
						}
					}
					if !hit && rf.skip == "" && ln >= rf.callLo && ln <= rf.callHi {
						rf.skip = "harness does not compile: " + m[2]
						hit, progress = true, true
					}
				}
				if !hit {
					if um := unusedImportRe.FindStringSubmatch(m[2]); um != nil {
						for _, rf := range fs {
							if _, ok := rf.imports[um[1]]; ok {
								delete(rf.imports, um[1])
								progress = true
							}
						}
					}
				}
			}
			for _, rf := range fs {
				for _, rc := range rf.clauses {
					if rc.kind == "req" && !rc.alive && rf.skip == "" {
						// inputs cannot be filtered: nothing may be concluded from running the function
						rf.skip = "a precondition is not executable (" + rc.cl.Text + "): " + rc.why
					}
				}
			}
			var keep []*rtcFunc
			for _, rf := range fs {
				if rf.skip == "" {
					keep = append(keep, rf)
				}
			}
			fs = keep
			if !progress {
				b.err = "go test -c: errors outside the generated clause functions\n" + tail(string(out), 2000)
				return
			}
		}
		{
			var keep []*rtcFunc
			for _, rf := range fs {
				for _, rc := range rf.clauses {
					if rc.kind == "req" && !rc.alive && rf.skip == "" {
						rf.skip = "a precondition is not executable (" + rc.cl.Text + "): " + rc.why
					}
				}
				aliveEns := 0
				for _, rc := range rf.clauses {
					if rc.kind == "ens" && rc.alive {
						aliveEns++
					}
				}
				if rf.skip == "" && rf.noCall && aliveEns == 0 {
					rf.skip = "no executable clause"
				}
				if rf.skip == "" {
					keep = append(keep, rf)
				}
			}
			fs = keep
		}
		// phase B: run; a process that exits inside a function (logger.Fatal) leaves that
		// function inconclusive and the rest is run again without it
		remaining := fs
		for attempt := 0; attempt < 4 && len(remaining) > 0; attempt++ {
			src, _ := r.rtcFile(pkg, remaining, true)
			os.WriteFile(testFile, []byte(src), 0o644)
			to := 240
			if r.tier == "thorough" {
				to = 1500
			}
			cmd := exec.Command("go", "test", "-tags", "verif", "-overlay", ovFile, "-vet=off", "-count=1", "-timeout", fmt.Sprintf("%ds", to), "-v", "-run", "^TestZZRtc$", ".")
			cmd.Dir = dir
			cmd.Env = env
			out, err := cmd.CombinedOutput()
			fre := regexp.MustCompile(`(?m)^ZZRTCFAIL (\S+) clause=(\S+) input=("(?:[^"\\]|\\.)*") msg=("(?:[^"\\]|\\.)*")$`)
			fails := map[string]map[string][2]string{}
			for _, m := range fre.FindAllStringSubmatch(string(out), -1) {
				in, _ := strconv.Unquote(m[3])
				msg, _ := strconv.Unquote(m[4])
				if fails[m[1]] == nil {
					fails[m[1]] = map[string][2]string{}
				}
				fails[m[1]][m[2]] = [2]string{in, msg}
			}
			re := regexp.MustCompile(`(?m)^ZZRTC (\S+) cases=(\d+) checked=(\d+) evalpanics=(\d+)$`)
			for _, m := range re.FindAllStringSubmatch(string(out), -1) {
				var rr rtcResult
				rr.Cases, _ = strconv.Atoi(m[2])
				rr.Checked, _ = strconv.Atoi(m[3])
				rr.EvalPanics, _ = strconv.Atoi(m[4])
				rr.Fails = fails[m[1]]
				b.results[m[1]] = rr
			}
			var next []*rtcFunc
			started := regexp.MustCompile(`(?m)^ZZRTC-START (\S+)$`).FindAllStringSubmatch(string(out), -1)
			if err != nil && len(started) > 0 {
				last := started[len(started)-1][1]
				if _, done := b.results[last]; !done {
					b.results[last] = rtcResult{Exited: true, Msg: tail(string(out), 600)}
				}
			}
			for _, rf := range remaining {
				if _, done := b.results[rf.qname]; !done {
					next = append(next, rf)
				}
			}
			if err != nil && len(started) == 0 {
				b.err = fmt.Sprintf("go test: %v\n%s", err, tail(string(out), 3000))
				return
			}
			if len(next) == len(remaining) {
				b.err = fmt.Sprintf("go test made no progress: %v\n%s", err, tail(string(out), 3000))
				return
			}
			remaining = next
		}
	})
	return b
}

func tail(s string, n int) string {
	if len(s) > n {
		return s[len(s)-n:]
	}
	return s
}

// rtcObligations: bounded obligations `<pkg>.rtc/<Func>/no-panic` and `<pkg>.rtc/<Func>/<clause>`
// for every function with an executable contract.
func (r *Run) rtcObligations(prop string, funcs map[string]bool, externs map[string]bool, lemmas map[string]bool) []*Obligation {
	var out []*Obligation
	r.rtcSelected = map[string]bool{}
	for _, rf := range r.rtc {
		sel := false
		switch {
		case rf.c.Extern:
			sel = externs[rf.c.Func]
		case rf.c.Lemma:
			sel = hasTag(rf.tags, prop) || lemmas[rf.c.Func] || prop == "all"
		default:
			sel = hasTag(rf.tags, prop) || prop == "all"
		}
		if !sel {
			continue
		}
		if rf.skip != "" {
			r.rtcNotes = append(r.rtcNotes, rf.qname+": contract not run: "+rf.skip)
			continue
		}
		r.rtcSelected[rf.qname] = true
		rf := rf
		what := "executable contract: the real function is run on every input of the domain; inputs satisfying the requires-clauses"
		if rf.c.Extern {
			what = "ASSUMED library contract validated against the real library function on every input of the domain; inputs satisfying the requires-clauses"
		} else if rf.c.Lemma {
			what = "lemma statement evaluated on every input of the domain; inputs satisfying the requires-clauses"
			if rf.c.Opts["assumed"] != "" {
				what = "ASSUMED lemma validated by evaluation on every input of the domain; inputs satisfying the requires-clauses"
			}
		}
		mk := func(key, suffix, descr string, rc *rtcClause) {
			ob := &Obligation{Name: fmt.Sprintf("%s.rtc/%s/%s", pkgShort(rf.c.Pkg), rf.c.Func, suffix), Func: rf.qname, Kind: "rtc", Tags: []string{prop}, Bounded: true, Descr: what + " " + descr}
			ob.Run = func(ob *Obligation, timeout time.Duration) {
				res := r.runRtcPkg(rf.c.Pkg)
				ob.Solver = "go test (executable contract, exhaustive enumeration)"
				ob.Ms = res.wall.Milliseconds()
				ob.Domain = fmt.Sprintf("strings: at most %d tokens over %q; ints -1..len+1; all bools; all 256 byte values; lists of at most 3 tokens", rf.maxTok, rf.tokens)
				if rf.skip != "" {
					ob.Status, ob.Cases = "discharged", 0
					ob.Detail = "not run: " + rf.skip
					ob.Domain = "none"
					return
				}
				if rc != nil && !rc.alive {
					ob.Status, ob.Cases = "discharged", 0
					ob.Detail = "clause not executable (ghost state): " + rc.why
					ob.Domain = "none"
					return
				}
				rr, ok := res.results[rf.qname]
				if !ok {
					ob.Status = "failed"
					ob.FailStatus = "error"
					ob.Detail = "executable-contract driver produced no result for " + rf.qname + "\n" + res.err
					return
				}
				ob.Cases = rr.Checked
				if rr.Exited {
					ob.Status, ob.Cases = "discharged", 0
					ob.Detail = "inconclusive: the process exited inside the function (logger.Fatal / os.Exit)"
					ob.Domain = "none"
					return
				}
				if f, bad := rr.Fails[key]; bad {
					ob.Status = "failed"
					ob.FailStatus = "counterexample"
					ob.Witness = f[0]
					if key == "panic" {
						ob.WitnessNote = "input on which the real function panics: " + f[1]
						ob.Detail = fmt.Sprintf("on the real code, for %s: panic: %s", f[0], f[1])
					} else {
						ob.WitnessNote = "input on which the real function violates `" + rc.cl.Text + "`: " + f[1]
						ob.Detail = fmt.Sprintf("on the real code, for %s: `%s` is false (%s)", f[0], rc.cl.Text, f[1])
					}
					ob.ReplayPkg = rf.c.Pkg
					return
				}
				ob.Status = "discharged"
				ob.Detail = fmt.Sprintf("%d inputs enumerated, %d satisfy the preconditions, %d clause evaluations panicked (ignored)", rr.Cases, rr.Checked, rr.EvalPanics)
			}
			out = append(out, ob)
		}
		if !rf.noCall {
			mk("panic", "no-panic", "must not make it panic", nil)
		}
		for _, rc := range rf.clauses {
			if rc.kind != "ens" {
				continue
			}
			if !rf.c.Extern && !rf.c.Lemma && prop != "all" && !hasTag(rf.c.tagsFor(rc.cl), prop) {
				continue // a clause of another property
			}
			lbl := rc.cl.Label
			if lbl == "" {
				lbl = strconv.Itoa(rc.idx)
			}
			mk(strconv.Itoa(rc.idx), lbl, "must satisfy `"+rc.cl.Text+"`", rc)
		}
	}
	return out
}

// cmdRtc: run every executable contract of the repository and print what was covered.
func cmdRtc(args []string) int {
	repo := "/repo"
	filter := ""
	tier := "quick"
	for i := 0; i < len(args); i++ {
		switch {
		case args[i] == "--repo" && i+1 < len(args):
			repo = args[i+1]
			i++
		case args[i] == "--tier" && i+1 < len(args):
			tier = args[i+1]
			i++
		default:
			filter = args[i]
		}
	}
	r, err := generate(repo)
	if err != nil {
		fmt.Fprintln(os.Stderr, err)
		return 2
	}
	r.tier, r.prop = tier, "all"
	ext, lem := map[string]bool{}, map[string]bool{}
	for _, c := range r.w.cs.Contracts {
		if c.Extern {
			ext[c.Func] = true
		}
		if c.Lemma {
			lem[c.Func] = true
		}
	}
	obls := r.rtcObligations("all", nil, ext, lem)
	if filter != "" {
		var keep []*Obligation
		r.rtcSelected = map[string]bool{}
		for _, ob := range obls {
			if strings.Contains(ob.Name, filter) {
				keep = append(keep, ob)
				r.rtcSelected[ob.Func] = true
			}
		}
		obls = keep
	}
	runParallel(len(obls), 8, func(i int) { obls[i].Run(obls[i], time.Minute) })
	rc := 0
	for _, ob := range obls {
		fmt.Printf("%-10s %-70s cases=%-6d %s\n", ob.Status, ob.Name, ob.Cases, ob.Detail)
		if ob.Status != "discharged" {
			rc = 1
		}
	}
	sort.Strings(r.rtcNotes)
	for _, n := range r.rtcNotes {
		fmt.Println("skipped   ", n)
	}
	if os.Getenv("GOVC_KEEP") != "" {
		exec.Command("cp", "-r", scratch(), os.Getenv("GOVC_KEEP")).Run()
	}
	return rc
}

func mapValues(m map[string]string) []string {
	var out []string
	for _, v := range m {
		out = append(out, v)
	}
	return out
}
