package main

// Calls: contract-language builtins, Go builtins, ghost models of builders /
// scanners / logger chains / fmt, calls by contract (in-repo and extern), havoc.

import (
	"fmt"
	"go/ast"
	"go/token"
	"go/types"
	"strings"
)

// calleeOf resolves the static callee of a call in program code.
func (fc *FnCtx) calleeOf(call *ast.CallExpr) (fn *types.Func, recv ast.Expr) {
	switch f := call.Fun.(type) {
	case *ast.Ident:
		if o, ok := fc.info().Uses[f].(*types.Func); ok {
			return o, nil
		}
	case *ast.SelectorExpr:
		if sel, ok := fc.info().Selections[f]; ok {
			if o, ok := sel.Obj().(*types.Func); ok {
				return o, f.X
			}
			return nil, nil
		}
		if o, ok := fc.info().Uses[f.Sel].(*types.Func); ok {
			return o, nil
		}
	}
	return nil, nil
}

func funcKey(fn *types.Func) (pkgPath, name string) {
	sig := fn.Type().(*types.Signature)
	name = fn.Name()
	if r := sig.Recv(); r != nil {
		t := r.Type()
		if p, ok := t.(*types.Pointer); ok {
			t = p.Elem()
		}
		if n, ok := t.(*types.Named); ok {
			name = n.Obj().Name() + "." + name
		}
	}
	if fn.Pkg() != nil {
		pkgPath = fn.Pkg().Path()
	}
	return
}

// rootIdent returns the root identifier of a selector/call chain x.a().b.c()
func rootIdent(e ast.Expr) *ast.Ident {
	for {
		switch x := e.(type) {
		case *ast.Ident:
			return x
		case *ast.SelectorExpr:
			e = x.X
		case *ast.CallExpr:
			e = x.Fun
		case *ast.ParenExpr:
			e = x.X
		case *ast.StarExpr:
			e = x.X
		case *ast.IndexExpr:
			e = x.X
		default:
			return nil
		}
	}
}

// loggerChain: logger.Level()...Msg(...) — returns level name and terminal method.
func (fc *FnCtx) loggerChain(call *ast.CallExpr) (level, terminal string, ok bool) {
	root := rootIdent(call)
	if root == nil || root.Name != "logger" {
		return "", "", false
	}
	if v, isVar := fc.info().Uses[root].(*types.Var); !isVar || v.Parent() != v.Pkg().Scope() {
		return "", "", false
	}
	// walk the chain to find the first method after `logger`
	var methods []string
	var e ast.Expr = call
	for {
		switch x := e.(type) {
		case *ast.CallExpr:
			e = x.Fun
			continue
		case *ast.SelectorExpr:
			methods = append(methods, x.Sel.Name)
			e = x.X
			continue
		}
		break
	}
	if len(methods) == 0 {
		return "", "", false
	}
	return methods[len(methods)-1], methods[0], true
}

func (fc *FnCtx) trCall(st *State, call *ast.CallExpr) []Val {
	if fc.scope != nil {
		return []Val{fc.trContractCall(st, call)}
	}
	// conversions
	if tv, ok := fc.info().Types[call.Fun]; ok && tv.IsType() {
		return []Val{fc.trConversion(st, call, tv.Type)}
	}
	// builtins
	if id, ok := call.Fun.(*ast.Ident); ok {
		if _, isB := fc.info().Uses[id].(*types.Builtin); isB {
			return fc.trBuiltin(st, id.Name, call)
		}
	}
	// logger chains
	if level, term, ok := fc.loggerChain(call); ok {
		// evaluate arguments for safety obligations (e.g. args[0] in Msgf)
		for _, a := range call.Args {
			_ = fc.tr(st, a)
		}
		terminated := term == "Msg" || term == "Msgf" || term == "Send"
		if terminated && level == "Fatal" {
			st.env["$outcome"] = Val{T: "exit", S: SOpaque}
		} else if terminated && level == "Panic" {
			st.env["$outcome"] = Val{T: "panic", S: SOpaque}
		}
		return []Val{{S: SOpaque, T: "0"}}
	}
	fn, recvExpr := fc.calleeOf(call)
	if fn == nil {
		// call of a function value / interface method not resolved
		return fc.havocCall(st, call, "dynamic call "+exprString(call.Fun))
	}
	pkgPath, name := funcKey(fn)
	full := pkgPath + "." + name
	// spec functions and contract helpers (defined in the verif files) called from ghost code
	if sf := fc.w.specFuncs[fn]; sf != nil {
		var args []string
		for _, a := range call.Args {
			args = append(args, fc.tr(st, a).T)
		}
		rt := fn.Type().(*types.Signature).Results().At(0).Type()
		if len(args) == 0 {
			return []Val{{T: sf.smtName, S: sortOf(rt), GT: rt}}
		}
		return []Val{{T: "(" + sf.smtName + " " + strings.Join(args, " ") + ")", S: sortOf(rt), GT: rt}}
	}
	if fn.Pkg() != nil && isVerifFile(fc.pkg.Fset.Position(fn.Pos()).Filename) {
		if fn.Name() == "assert" {
			v := fc.tr(st, call.Args[0])
			ord := fc.siteOrdinal("assert", call)
			if fc.contract != nil {
				fc.oblige(st, fmt.Sprintf("assert#%d", ord), "assert", fc.contract.Tags, v.T, "ghost assertion: "+exprString(call.Args[0]), call)
			}
			return nil
		}
		switch fn.Name() {
		case "forall", "exists", "implies", "ite", "iteS", "byteStr", "reMatch", "reGroup", "itoa", "reMatchDyn", "reSpan", "reAny", "reReplace", "noNL":
			return []Val{fc.trHelper(st, fn.Name(), call)}
		}
	}
	// ghost models
	// arguments of a modelled call are remembered for argOf() when translating them a second
	// time is harmless (no calls inside); taken before the model runs (it may change the state)
	var modelArgs []Val
	simpleArgs := true
	for _, a := range call.Args {
		if !fc.isSimpleExpr(a) {
			simpleArgs = false
		}
	}
	if simpleArgs && call.Ellipsis == token.NoPos {
		fc.noSafety++
		for _, a := range call.Args {
			modelArgs = append(modelArgs, fc.tr(st, a))
		}
		fc.noSafety--
	}
	if rs, ok := fc.trModel(st, call, fn, recvExpr, full); ok {
		fc.setGhost(st, "called", fn, "", boolVal("true"))
		for i, rv := range rs {
			fc.setGhost(st, "ret", fn, fmt.Sprint(i), rv)
		}
		for i := range call.Args {
			if i < len(modelArgs) {
				fc.setGhost(st, "arg", fn, fmt.Sprint(i), modelArgs[i])
			} else {
				fc.clearGhost(st, "arg", fn, fmt.Sprint(i))
			}
		}
		return rs
	}
	// interface method on IProcessor etc: unresolved dynamic dispatch
	sig := fn.Type().(*types.Signature)
	if sig.Recv() != nil {
		if _, isIface := sig.Recv().Type().Underlying().(*types.Interface); isIface {
			// argument-less getters of library interfaces (fs.DirEntry.Name / IsDir ...) are
			// assumed pure: repeated calls on the same value return the same result
			if !fc.w.isRepoPkg(pkgPath) && sig.Params().Len() == 0 && sig.Results().Len() == 1 && recvExpr != nil {
				rv := fc.tr(st, recvExpr)
				if rv.S == SRec && rv.Rec != "" {
					k := rv.Rec + ".$getter." + fn.Name()
					v, ok := st.env[k]
					if !ok {
						rt := sig.Results().At(0).Type()
						v = fc.initialVal(k, sortOf(rt), rt)
					}
					fc.setGhost(st, "called", fn, "", boolVal("true"))
					fc.setGhost(st, "ret", fn, "0", v)
					fc.notes = appendUnique(fc.notes, "ASSUMED pure getter: "+full)
					return []Val{v}
				}
			}
			if c := fc.w.cs.lookup(pkgPath, name); c != nil {
				return fc.callByContract(st, call, fn, recvExpr, c)
			}
			return fc.havocCall(st, call, "interface method "+full)
		}
	}
	// contract in repo
	if c := fc.w.cs.lookup(pkgPath, name); c != nil && !c.Extern {
		if c.Opts["inline"] != "" {
			if rs, ok := fc.inlineCall(st, call, fn, recvExpr, pkgPath, name); ok {
				fc.setGhost(st, "called", fn, "", boolVal("true"))
				for i, rv := range rs {
					fc.setGhost(st, "ret", fn, fmt.Sprint(i), rv)
				}
				return rs
			}
		}
		return fc.callByContract(st, call, fn, recvExpr, c)
	}
	// extern contracts: receiver-specific first
	for _, key := range arityKeys(fc.externKeys(fn, recvExpr), len(call.Args)) {
		if c := fc.w.externs[key]; c != nil {
			fc.externs[key] = true
			return fc.callByContract(st, call, fn, recvExpr, c)
		}
	}
	// regexp methods on a pattern whose literal is in the source: mechanical T2 facts
	if recvExpr != nil && isNamed(sig.Recv().Type(), "regexp", "Regexp") {
		var reArgs []Val
		reSimple := call.Ellipsis == token.NoPos
		for _, a := range call.Args {
			if !fc.isSimpleExpr(a) {
				reSimple = false
			}
		}
		if reSimple {
			fc.noSafety++
			for _, a := range call.Args {
				reArgs = append(reArgs, fc.tr(st, a))
			}
			fc.noSafety--
		}
		if rs, ok := fc.trRegexpMethod(st, call, fn, recvExpr); ok {
			fc.setGhost(st, "called", fn, "", boolVal("true"))
			for i, rv := range rs {
				fc.setGhost(st, "ret", fn, fmt.Sprint(i), rv)
			}
			for i := range call.Args {
				if i < len(reArgs) {
					fc.setGhost(st, "arg", fn, fmt.Sprint(i), reArgs[i])
				} else {
					fc.clearGhost(st, "arg", fn, fmt.Sprint(i))
				}
			}
			return rs
		}
	}
	// a small pure helper of the repository without a contract (typically the product of an
	// "extract function" refactoring) is executed in place, all its paths merged
	if fc.w.isRepoPkg(pkgPath) && recvExpr == nil {
		if rs, ok := fc.autoInline(st, call, fn, pkgPath, name); ok {
			return rs
		}
	}
	return fc.havocCall(st, call, full)
}

// autoInline: in-place execution of a contract-less repository function that is loop-free,
// takes and returns only values (ints, bools, strings, byte slices, string lists), assigns no
// package-level variable and leaves no trace in the ghost state. Every returning path
// contributes its result under its own path condition: r = ite(H1, r1, ite(H2, r2, ...)).
func (fc *FnCtx) autoInline(st *State, call *ast.CallExpr, fn *types.Func, pkgPath, name string) ([]Val, bool) {
	site := fc.w.funcs[pkgPath+"::"+name]
	if site == nil || site.decl == nil || site.decl.Body == nil || fc.inlineDepth > 2 || fc.specMode != nil {
		return nil, false
	}
	if isVerifFile(site.pkg.Fset.Position(site.decl.Pos()).Filename) {
		return nil, false
	}
	sig := fn.Type().(*types.Signature)
	valueSort := func(t types.Type) bool {
		switch sortOf(t) {
		case SInt, SBool, SStr, SSL, SIL:
			return true
		}
		return false
	}
	if sig.Variadic() || sig.Results().Len() == 0 || sig.Results().Len() > 3 {
		return nil, false
	}
	mapParams := map[string]bool{}
	for i := 0; i < sig.Params().Len(); i++ {
		pt := sig.Params().At(i).Type()
		if sortOf(pt) == SMap {
			mapParams[sig.Params().At(i).Name()] = true // accepted when the body only reads it
			continue
		}
		if isNamed(pt, "regexp", "Regexp") {
			continue // compiled patterns are immutable
		}
		if sortOf(pt) == SRec {
			continue // accepted when the body leaves the record (and what it reaches) untouched: checked below
		}
		if !valueSort(pt) {
			return nil, false
		}
	}
	for i := 0; i < sig.Results().Len(); i++ {
		if !valueSort(sig.Results().At(i).Type()) {
			return nil, false
		}
	}
	simple := true
	ast.Inspect(site.decl.Body, func(n ast.Node) bool {
		switch x := n.(type) {
		case *ast.FuncLit, *ast.DeferStmt, *ast.GoStmt, *ast.SelectStmt, *ast.TypeSwitchStmt, *ast.LabeledStmt:
			simple = false
		case *ast.CallExpr:
			if id, ok := x.Fun.(*ast.Ident); ok && id.Name == fn.Name() {
				simple = false // recursion
			}
			// a map parameter may only be read: not deleted from, not handed on
			if id, ok := x.Fun.(*ast.Ident); ok && id.Name == "len" {
				return false
			}
			for _, a := range x.Args {
				if id, ok := a.(*ast.Ident); ok && mapParams[id.Name] {
					simple = false
				}
			}
		case *ast.AssignStmt:
			for _, l := range x.Lhs {
				if v := globalRoot(site.pkg.TypesInfo, l); v != nil {
					simple = false
				}
				if ix, ok := l.(*ast.IndexExpr); ok {
					if id, ok := ix.X.(*ast.Ident); ok && mapParams[id.Name] {
						simple = false
					}
				}
			}
			for _, r := range x.Rhs {
				if id, ok := r.(*ast.Ident); ok && mapParams[id.Name] {
					simple = false // aliasing the map
				}
			}
		case *ast.IncDecStmt:
			if v := globalRoot(site.pkg.TypesInfo, x.X); v != nil {
				simple = false
			}
		}
		return simple
	})
	if !simple || len(call.Args) != sig.Params().Len() {
		return nil, false
	}
	var args []Val
	for _, a := range call.Args {
		args = append(args, fc.tr(st, a))
	}
	savedPkg, savedSig, savedKeys, savedBody, savedContract := fc.pkg, fc.sig, fc.resultKeys, fc.body, fc.contract
	fc.pkg, fc.sig, fc.body = site.pkg, sig, site.decl.Body
	fc.contract = &Contract{Pkg: pkgPath, Func: name, Opts: map[string]string{}, Tags: savedContract.Tags, Safety: savedContract.Safety}
	fc.resultKeys = nil
	fc.inlineDepth++
	for i := 0; i < sig.Results().Len(); i++ {
		r := sig.Results().At(i)
		if r.Name() != "" && r.Name() != "_" {
			fc.resultKeys = append(fc.resultKeys, objKey(r))
		} else {
			fc.resultKeys = append(fc.resultKeys, fmt.Sprintf("ainl%d_%s_result%d", fc.counter, sanitize(name), i))
		}
	}
	fc.counter++
	keys := fc.resultKeys
	restore := func() {
		fc.pkg, fc.sig, fc.resultKeys, fc.body, fc.contract = savedPkg, savedSig, savedKeys, savedBody, savedContract
		fc.inlineDepth--
	}
	run := func(dry bool) ([]Outcome, *State) {
		work := st.clone()
		for i := 0; i < sig.Params().Len(); i++ {
			pr := sig.Params().At(i)
			fc.assignKey(work, objKey(pr), pr.Type(), args[i])
		}
		for i, k := range keys {
			rt := sig.Results().At(i).Type()
			if r := sig.Results().At(i); r.Name() != "" && r.Name() != "_" {
				fc.assignKey(work, k, rt, zeroVal(fc, work, sortOf(rt), rt))
			}
		}
		if dry {
			fc.dry++
			defer func() { fc.dry-- }()
		}
		base := work.clone()
		return fc.execBlock(work, site.decl.Body.List), base
	}
	// records handed in by reference: the body must not write them (nor anything they reach)
	recRoots := map[string]bool{}
	var addRoot func(v Val)
	addRoot = func(v Val) {
		if (v.S == SRec || v.S == SMap || v.S == SBuf) && v.Rec != "" && !recRoots[v.Rec] {
			recRoots[v.Rec] = true
			for k, fv := range st.env {
				if strings.HasPrefix(k, v.Rec+".") {
					addRoot(fv)
				}
			}
		}
	}
	for _, a := range args {
		addRoot(a)
	}
	underRoot := func(k string) bool {
		for r := range recRoots {
			if strings.HasPrefix(k, r+".") || k == r {
				return true
			}
		}
		return false
	}
	acceptable := func(outs []Outcome, base *State) bool {
		if len(outs) == 0 || len(outs) > 16 {
			return false
		}
		for _, o := range outs {
			for k := range o.St.env {
				if _, had := base.env[k]; !had && underRoot(k) {
					return false // a field of a record of the caller was written (or havoc'd)
				}
			}
		}
		for _, o := range outs {
			if o.Kind != OReturn && o.Kind != ONormal {
				return false
			}
			if o.Kind == ONormal && sig.Results().Len() > 0 {
				return false
			}
			for k, v := range o.St.env {
				bv, had := base.env[k]
				if strings.HasPrefix(k, "ghost.called.") || strings.HasPrefix(k, "ghost.ret.") || strings.HasPrefix(k, "ghost.arg.") {
					continue // bookkeeping of calls made inside (dropped: nobody can name them)
				}
				if strings.HasPrefix(k, "ghost.") && (!had || bv.T != v.T) {
					return false // calls inside left a trace (writes, reads, scanners ...)
				}
				if had && (bv.T != v.T || bv.Rec != v.Rec) && !strings.Contains(k, "@") {
					return false // something of the caller changed
				}
			}
			if len(o.St.scans) != len(base.scans) {
				return false
			}
		}
		return true
	}
	// the trial run must not leave anything behind if the body turns out not to be executable
	nErr, nAbs, nNotes := len(fc.errors), len(fc.abstracted), len(fc.notes)
	unmodelledBefore := map[string]bool{}
	for k := range fc.unmodelled {
		unmodelledBefore[k] = true
	}
	giveUp := func() {
		fc.errors, fc.abstracted, fc.notes = fc.errors[:nErr], fc.abstracted[:nAbs], fc.notes[:nNotes]
		for k := range fc.unmodelled {
			if !unmodelledBefore[k] {
				delete(fc.unmodelled, k)
			}
		}
		restore()
	}
	savedUnmodelled := fc.unmodelled
	fc.unmodelled = map[string]bool{}
	outs, base := run(true)
	bodyUnmodelled := fc.unmodelled
	fc.unmodelled = savedUnmodelled
	if len(fc.errors) > nErr {
		giveUp()
		return nil, false
	}
	if len(outs) == 1 && (outs[0].Kind == OReturn || (outs[0].Kind == ONormal && sig.Results().Len() == 0)) {
		// straight-line body: executed in place on the caller's state, with whatever effects it has
		// (calls by contract, writes through its arguments): nothing has to be merged
		for i := 0; i < sig.Params().Len(); i++ {
			pr := sig.Params().At(i)
			fc.assignKey(st, objKey(pr), pr.Type(), args[i])
		}
		for i, k := range keys {
			rt := sig.Results().At(i).Type()
			if r := sig.Results().At(i); r.Name() != "" && r.Name() != "_" {
				fc.assignKey(st, k, rt, zeroVal(fc, st, sortOf(rt), rt))
			}
		}
		if len(bodyUnmodelled) > 0 {
			fc.noSafety++
		}
		fc.execBlock(st, site.decl.Body.List)
		if len(bodyUnmodelled) > 0 {
			fc.noSafety--
		}
		if len(fc.errors) > nErr {
			// cannot happen after a clean trial run; keep the errors: the state was already changed
			restore()
			return fc.freshResults(st, call, "call"), true
		}
		var results []Val
		for i, k := range keys {
			results = append(results, fc.readKey(st, k, sig.Results().At(i).Type()))
		}
		restore()
		for i, a := range args {
			fc.setGhost(st, "arg", fn, fmt.Sprint(i), a)
		}
		fc.setGhost(st, "called", fn, "", boolVal("true"))
		for i, rv := range results {
			fc.setGhost(st, "ret", fn, fmt.Sprint(i), rv)
		}
		fc.notes = appendUnique(fc.notes, "helper without contract executed in place: "+pkgShort(pkgPath)+"."+name)
		return results, true
	}
	if !acceptable(outs, base) {
		giveUp()
		return nil, false
	}
	// a body that calls unmodelled code is executed for its results only: its own safety
	// obligations (which would rest on unknown values) are not claimed, as before it was inlined
	callsUnmodelled := len(bodyUnmodelled) > 0
	if callsUnmodelled {
		fc.noSafety++
	}
	outs, base = run(false)
	if callsUnmodelled {
		fc.noSafety--
	}
	if len(fc.errors) > nErr || !acceptable(outs, base) {
		giveUp()
		return nil, false
	}
	n0 := len(base.assume)
	var hs []string
	for _, o := range outs {
		hs = append(hs, and(o.St.assume[n0:]...))
	}
	var results []Val
	for i, k := range keys {
		rt := sig.Results().At(i).Type()
		srt := sortOf(rt)
		cur := fc.readKey(outs[len(outs)-1].St, k, rt).T
		for j := len(outs) - 2; j >= 0; j-- {
			cur = "(ite " + hs[j] + " " + fc.readKey(outs[j].St, k, rt).T + " " + cur + ")"
		}
		results = append(results, Val{T: cur, S: srt, GT: rt})
	}
	restore()
	// declarations made on the paths are global to the function context; the facts of exactly
	// one path hold
	if len(hs) == 1 {
		st.assume = append(st.assume, outs[0].St.assume[n0:]...)
	} else {
		st.assume = append(st.assume, "(or "+strings.Join(hs, " ")+")")
	}
	for i, a := range args {
		fc.setGhost(st, "arg", fn, fmt.Sprint(i), a)
	}
	fc.setGhost(st, "called", fn, "", boolVal("true"))
	for i, rv := range results {
		fc.setGhost(st, "ret", fn, fmt.Sprint(i), rv)
	}
	fc.notes = appendUnique(fc.notes, "helper without contract executed in place (all paths merged): "+pkgShort(pkgPath)+"."+name)
	return results, true
}

func (fc *FnCtx) externKeys(fn *types.Func, recvExpr ast.Expr) []string {
	var keys []string
	pkgName := ""
	if fn.Pkg() != nil {
		pkgName = fn.Pkg().Name()
	}
	_, name := funcKey(fn)
	if recvExpr != nil {
		// receiver is a package-level variable or a local: var-specific key
		switch r := recvExpr.(type) {
		case *ast.SelectorExpr:
			if id, ok := r.X.(*ast.Ident); ok {
				if _, isPkg := fc.info().Uses[id].(*types.PkgName); isPkg {
					keys = append(keys, id.Name+"."+r.Sel.Name+"."+fn.Name())
				}
			}
		case *ast.Ident:
			if v, ok := fc.info().Uses[r].(*types.Var); ok {
				if v.Parent() == v.Pkg().Scope() {
					keys = append(keys, v.Pkg().Name()+"."+r.Name+"."+fn.Name())
					// package var initialised from another package's var (e.g. blockStartRegex = regex.X)
					if alias := fc.w.varAlias[objKey(v)]; alias != "" {
						keys = append(keys, alias+"."+fn.Name())
					}
				} else {
					keys = append(keys, fc.name+":"+r.Name+"."+fn.Name())
				}
			}
		}
	}
	keys = append(keys, pkgName+"."+name)
	return keys
}

// arityKeys: for variadic library functions an extern contract may be keyed by arity
// ("path.Join/2").
func arityKeys(keys []string, n int) []string {
	var out []string
	for _, k := range keys {
		out = append(out, fmt.Sprintf("%s/%d", k, n), k)
	}
	return out
}

func (fc *FnCtx) havocCall(st *State, call *ast.CallExpr, what string) []Val {
	fc.unmodelled[what] = true
	// an unmodelled callee may write through every pointer it is handed
	for _, a := range call.Args {
		if t := fc.typeOf(a); t != nil {
			if _, isPtr := t.Underlying().(*types.Pointer); isPtr {
				if v := fc.tr(st, a); v.S == SRec && v.Rec != "" {
					fc.havocRecordDeep(st, v.Rec)
				} else if v.S == SMap {
					fc.havocMap(st, v) // &m
				}
			}
			if _, isMap := t.Underlying().(*types.Map); isMap {
				if v := fc.tr(st, a); v.S == SMap {
					fc.havocMap(st, v) // maps are references
				}
			}
		}
	}
	if fn, _ := fc.calleeOf(call); fn != nil && fn.Pkg() != nil {
		pkgPath, name := funcKey(fn)
		if cls := primitiveEffects[pkgPath+"."+name]; cls == "fswrite" {
			fc.havocWrites(st)
		} else if fc.w.reachesEffect(pkgPath+"::"+name, "fswrite") || fc.w.reachesEffect(pkgPath+"::"+name, "selfupdate") {
			fc.havocWrites(st)
		}
		if cls := primitiveEffects[pkgPath+"."+name]; cls == "exit" {
			st.env["$outcome"] = Val{T: "exit", S: SOpaque}
		}
	}
	for _, a := range call.Args {
		v := fc.tr(st, a)
		// an unmodelled callee may write the ELEMENTS of a slice it is handed (sort.Strings,
		// copy-like helpers ...): the variable keeps its length, its contents are unknown
		if t := fc.typeOf(a); t != nil {
			if _, isSlice := t.Underlying().(*types.Slice); isSlice {
				switch a.(type) {
				case *ast.Ident, *ast.SelectorExpr:
					switch v.S {
					case SSL:
						nv := fc.freshVal(st, "elems", SSL, t)
						st.addAssume("(= (sllen " + nv.T + ") (sllen " + v.T + "))")
						fc.assign(st, a, nv)
					case SIL:
						nv := fc.freshVal(st, "elems", SIL, t)
						st.addAssume("(= (illen " + nv.T + ") (illen " + v.T + "))")
						fc.assign(st, a, nv)
					case SStr:
						nv := fc.freshVal(st, "elems", SStr, t)
						st.addAssume("(= (slen " + nv.T + ") (slen " + v.T + "))")
						fc.assign(st, a, nv)
					}
				}
			}
		}
	}
	rs := fc.freshResults(st, call, "call")
	if fn, _ := fc.calleeOf(call); fn != nil && fn.Pkg() != nil {
		for i, a := range call.Args {
			fc.setGhost(st, "arg", fn, fmt.Sprint(i), fc.tr(st, a))
		}
		fc.setGhost(st, "called", fn, "", boolVal("true"))
		for i, rv := range rs {
			fc.setGhost(st, "ret", fn, fmt.Sprint(i), rv)
		}
	}
	return rs
}

func (fc *FnCtx) freshResults(st *State, call *ast.CallExpr, hint string) []Val {
	t := fc.typeOf(call)
	var out []Val
	switch tt := t.(type) {
	case *types.Tuple:
		for i := 0; i < tt.Len(); i++ {
			out = append(out, fc.freshVal(st, hint, sortOf(tt.At(i).Type()), tt.At(i).Type()))
		}
	case nil:
	default:
		out = append(out, fc.freshVal(st, hint, sortOf(t), t))
	}
	return out
}

func (fc *FnCtx) trConversion(st *State, call *ast.CallExpr, to types.Type) Val {
	v := fc.tr(st, call.Args[0])
	ts := sortOf(to)
	switch {
	case ts == SStr && v.S == SStr:
		return Val{T: v.T, S: SStr, GT: to}
	case ts == SStr && v.S == SInt:
		// string(byte) / string(rune): one byte if < 128, else UTF-8 (abstracted)
		one := "(appendbyte emptystr " + v.T + ")"
		if b, ok := v.GT.(*types.Basic); ok && b.Kind() == types.Uint8 {
			// string(byte): for values >= 128 this is a 2-byte UTF-8 sequence
			r := fc.freshVal(st, "runestr", SStr, to)
			st.addAssume("(=> (< " + v.T + " 128) (= " + r.T + " " + one + "))")
			st.addAssume("(=> (>= " + v.T + " 128) (and (>= (slen " + r.T + ") 2) (forall ((i Int)) (=> (and (<= 0 i) (< i (slen " + r.T + "))) (>= (at " + r.T + " i) 128)))))")
			return r
		}
		r := fc.freshVal(st, "runestr", SStr, to)
		st.addAssume("(=> (and (<= 0 " + v.T + ") (< " + v.T + " 128)) (= " + r.T + " " + one + "))")
		st.addAssume("(=> (not (and (<= 0 " + v.T + ") (< " + v.T + " 128))) (and (>= (slen " + r.T + ") 2) (forall ((i Int)) (=> (and (<= 0 i) (< i (slen " + r.T + "))) (>= (at " + r.T + " i) 128)))))")
		return r
	case ts == SInt && v.S == SInt:
		if lo, hi, ok := intRange(to); ok {
			if fc.safetyOn() && fc.contract.Opts["conv-range"] != "" {
				ord := fc.siteOrdinal("conv", call)
				fc.oblige(st, fmt.Sprintf("conv-range#%d", ord), "conv-range", strings.Fields(fc.contract.Opts["conv-range"]),
					"(and (<= "+lo+" "+v.T+") (<= "+v.T+" "+hi+"))", "narrowing conversion keeps the value: "+exprString(call), call)
			}
			if b, ok := to.Underlying().(*types.Basic); ok && b.Kind() == types.Uint8 {
				return Val{T: "(mod " + v.T + " 256)", S: SInt, GT: to}
			}
			_ = lo
			_ = hi
		}
		return Val{T: v.T, S: SInt, GT: to}
	case ts == SSL && v.S == SSL, ts == SIL && v.S == SIL, ts == SBool && v.S == SBool:
		v.GT = to
		return v
	case ts == SOpaque: // float64(...) etc: not modelled
		return Val{T: "0", S: SOpaque, GT: to}
	}
	if v.S == SOpaque {
		return fc.freshVal(st, "fromopaque", ts, to)
	}
	fc.errorf("%s: unsupported conversion %s", fc.pos(call), exprString(call))
	return fc.freshVal(st, "conv", ts, to)
}

func (fc *FnCtx) trBuiltin(st *State, name string, call *ast.CallExpr) []Val {
	switch name {
	case "len":
		v := fc.tr(st, call.Args[0])
		return []Val{fc.lenOf(st, v, call)}
	case "append":
		fc.aliasCheck(st, call)
		base := fc.tr(st, call.Args[0])
		if base.S == SNil {
			base = zeroVal(fc, st, sortOf(fc.typeOf(call)), fc.typeOf(call))
		}
		cur := base.T
		switch base.S {
		case SSL:
			if call.Ellipsis.IsValid() {
				b := fc.tr(st, call.Args[1])
				if cur == "emptysl" {
					return []Val{{T: b.T, S: SSL, GT: base.GT}} // copy of b
				}
				return []Val{{T: "(slcat " + cur + " " + b.T + ")", S: SSL, GT: base.GT}}
			}
			for _, a := range call.Args[1:] {
				v := fc.tr(st, a)
				if v.S == SNil {
					v = Val{T: "emptystr", S: SStr}
				}
				cur = "(appendstr " + cur + " " + v.T + ")"
			}
			return []Val{{T: cur, S: SSL, GT: base.GT}}
		case SStr:
			if call.Ellipsis.IsValid() {
				b := fc.tr(st, call.Args[1])
				return []Val{fc.concat(st, base, b)}
			}
			for _, a := range call.Args[1:] {
				v := fc.tr(st, a)
				cur = "(appendbyte " + cur + " " + v.T + ")"
			}
			return []Val{{T: cur, S: SStr, GT: base.GT}}
		}
		if base.S == SOL && !call.Ellipsis.IsValid() {
			for _, a := range call.Args[1:] {
				_ = fc.tr(st, a)
			}
			return []Val{{T: fmt.Sprintf("(+ %s %d)", base.T, len(call.Args)-1), S: SOL, GT: base.GT}}
		}
		for _, a := range call.Args[1:] {
			_ = fc.tr(st, a)
		}
		fc.unmodelled["append on "+exprString(call.Args[0])] = true
		return fc.freshResults(st, call, "append")
	case "make":
		t := fc.typeOf(call)
		s := sortOf(t)
		for _, a := range call.Args[1:] {
			_ = fc.tr(st, a)
		}
		switch s {
		case SSL:
			if len(call.Args) >= 2 {
				n := fc.tr(st, call.Args[1])
				if len(call.Args) == 2 || exprString(call.Args[1]) != "0" {
					r := fc.freshVal(st, "make", SSL, t)
					st.addAssume("(= (sllen " + r.T + ") " + n.T + ")")
					st.addAssume("(forall ((i Int)) (= (select (items " + r.T + ") i) emptystr))")
					return []Val{r}
				}
			}
			return []Val{{T: "emptysl", S: SSL, GT: t}}
		case SOL:
			if len(call.Args) >= 2 {
				return []Val{{T: fc.tr(st, call.Args[1]).T, S: SOL, GT: t}}
			}
			return []Val{{T: "0", S: SOL, GT: t}}
		case SMap:
			v := fc.freshVal(st, "make", SMap, t)
			st.fresh[v.Rec] = true
			return []Val{v}
		case SStr:
			if len(call.Args) == 3 || (len(call.Args) == 2 && exprString(call.Args[1]) == "0") {
				return []Val{{T: "emptystr", S: SStr, GT: t}}
			}
		}
		return []Val{fc.freshVal(st, "make", s, t)}
	case "new":
		t := fc.typeOf(call)
		return []Val{zeroVal(fc, st, sortOf(t), t)}
	case "delete":
		m := fc.tr(st, call.Args[0])
		k := fc.tr(st, call.Args[1])
		fc.mapDelete(st, m, k)
		return nil
	case "panic":
		for _, a := range call.Args {
			_ = fc.tr(st, a)
		}
		st.env["$outcome"] = Val{T: "panic", S: SOpaque}
		return nil
	}
	fc.errorf("%s: unsupported builtin %s", fc.pos(call), name)
	return fc.freshResults(st, call, name)
}

func (fc *FnCtx) lenOf(st *State, v Val, n ast.Node) Val {
	switch v.S {
	case SStr:
		return intVal("(slen " + v.T + ")")
	case SSL:
		return intVal("(sllen " + v.T + ")")
	case SIL:
		return intVal("(illen " + v.T + ")")
	case SMap:
		k := v.Rec + ".len"
		if l, ok := st.env[k]; ok {
			return l
		}
		if st.fresh[v.Rec] {
			return intVal("0")
		}
		l := fc.initialVal(k, SInt, nil)
		fc.initAssume = append(fc.initAssume, "(>= "+l.T+" 0)")
		return l
	case SNil:
		return intVal("0")
	case SLL:
		return intVal(v.Rec)
	case SOL:
		return intVal(v.T)
	}
	fc.errorf("%s: len of unsupported sort", fc.posOf(n))
	return fc.freshVal(st, "len", SInt, nil)
}

// ---- contract-language calls ---------------------------------------------------

func (fc *FnCtx) trContractCall(st *State, call *ast.CallExpr) Val {
	name := ""
	switch f := call.Fun.(type) {
	case *ast.Ident:
		name = f.Name
	case *ast.SelectorExpr:
		if id, ok := f.X.(*ast.Ident); ok {
			name = id.Name + "." + f.Sel.Name
		}
	}
	switch name {
	case "len":
		return fc.lenOf(st, fc.tr(st, call.Args[0]), call)
	case "old":
		if fc.oldEnv == nil {
			fc.errorf("old() used where no pre-state exists")
			return fc.tr(st, call.Args[0])
		}
		tmp := &State{env: fc.oldEnv, assume: st.assume, guard: st.guard, fresh: fc.oldFresh}
		v := fc.tr(tmp, call.Args[0])
		st.assume = tmp.assume
		return v
	case "forallStr":
		fl, ok := call.Args[0].(*ast.FuncLit)
		if !ok || len(fl.Body.List) != 1 {
			fc.errorf("contract: forallStr(func(k string) bool { return ... })")
			return boolVal("true")
		}
		ret, _ := fl.Body.List[0].(*ast.ReturnStmt)
		kname := fl.Type.Params.List[0].Names[0].Name
		bound := fc.freshName("qs_" + kname)
		saved := fc.scope
		fc.scope = &nameScope{vals: map[string]Val{kname: {T: bound, S: SStr}}, parent: saved}
		body := fc.tr(st, ret.Results[0])
		fc.scope = saved
		return boolVal("(forall ((" + bound + " Str)) (=> (wfstr " + bound + ") " + body.T + "))")
	case "implies", "ite", "iteS", "forall", "exists", "byteStr", "reMatch", "reGroup", "itoa", "reMatchDyn", "reSpan", "reAny", "reReplace", "noNL":
		return fc.trHelper(st, name, call)
	}
	return fc.trContractCall2(st, call, name)
}

// trHelper: implies / ite / forall / exists, in contract clauses and in spec function bodies.
func (fc *FnCtx) trHelper(st *State, name string, call *ast.CallExpr) Val {
	switch name {
	case "byteStr":
		v := fc.tr(st, call.Args[0])
		return Val{T: "(appendbyte emptystr " + v.T + ")", S: SStr}
	case "noNL":
		v := fc.tr(st, call.Args[0])
		return boolVal("(nonl " + v.T + ")")
	case "itoa":
		v := fc.tr(st, call.Args[0])
		return Val{T: "(itoa " + v.T + ")", S: SStr}
	case "reSpan", "reAny":
		rv := fc.tr(st, call.Args[0])
		sv := fc.tr(st, call.Args[1])
		if rv.S != SRec || rv.Rec == "" {
			fc.errorf("contract: %s needs a regex object", name)
			return boolVal("true")
		}
		id := fc.regexObjID(st, rv)
		if name == "reSpan" {
			return boolVal("(reobj_span " + id + " " + sv.T + ")")
		}
		return boolVal("(reobj_any " + id + " " + sv.T + ")")
	case "reMatchDyn":
		p := fc.tr(st, call.Args[0])
		v := fc.tr(st, call.Args[1])
		fc.w.needDynRe = true
		return boolVal("(rematchdyn " + p.T + " " + v.T + ")")
	case "reMatch", "reGroup", "reReplace":
		// first argument names a package-level regex variable: resolved to its literal
		lit := ""
		switch a := call.Args[0].(type) {
		case *ast.SelectorExpr:
			lit = fc.w.regexByName[exprString(a)]
		case *ast.Ident:
			// a local variable of the function under contract compiled from a literal
			if fc.pkg != nil {
				if l, ok := fc.w.localRegex[fc.pkg.Name+"."+fc.name+":"+a.Name]; ok {
					lit = l
				}
			}
			if lit == "" {
				for nm, l := range fc.w.regexByName {
					if strings.HasSuffix(nm, "."+a.Name) {
						lit = l
					}
				}
			}
		}
		if lit == "" {
			fc.errorf("contract: %s: cannot resolve regex %s", name, exprString(call.Args[0]))
			return boolVal("true")
		}
		id := fc.w.regexUF(lit)
		s := fc.tr(st, call.Args[1])
		if name == "reMatch" {
			return boolVal("(rematch_" + id + " " + s.T + ")")
		}
		if name == "reReplace" {
			t := fc.tr(st, call.Args[2])
			return Val{T: "(rereplace_" + id + " " + s.T + " " + t.T + ")", S: SStr}
		}
		bl, _ := call.Args[2].(*ast.BasicLit)
		if bl == nil {
			fc.errorf("contract: reGroup needs a literal group index")
			return Val{T: "emptystr", S: SStr}
		}
		return Val{T: "(regroup_" + id + "_" + bl.Value + " " + s.T + ")", S: SStr}
	case "implies":
		a := fc.tr(st, call.Args[0])
		if a.T == "false" {
			return boolVal("true")
		}
		st.guard = append(st.guard, a.T)
		b := fc.tr(st, call.Args[1])
		st.guard = st.guard[:len(st.guard)-1]
		return boolVal(implies(a.T, b.T))
	case "ite", "iteS":
		c := fc.tr(st, call.Args[0])
		a := fc.tr(st, call.Args[1])
		b := fc.tr(st, call.Args[2])
		return Val{T: "(ite " + c.T + " " + a.T + " " + b.T + ")", S: a.S, GT: a.GT}
	case "forall", "exists":
		lo := fc.tr(st, call.Args[0])
		hi := fc.tr(st, call.Args[1])
		fl, ok := call.Args[2].(*ast.FuncLit)
		if !ok || len(fl.Type.Params.List) != 1 || len(fl.Body.List) != 1 {
			fc.errorf("contract: forall/exists needs func(k int) bool { return ... }")
			return boolVal("true")
		}
		ret, ok := fl.Body.List[0].(*ast.ReturnStmt)
		if !ok {
			fc.errorf("contract: quantifier body must be a single return")
			return boolVal("true")
		}
		kid := fl.Type.Params.List[0].Names[0]
		kname := kid.Name
		bound := fc.freshName("q_" + kname)
		saved := fc.scope
		nAssume := len(st.assume)
		var body Val
		if saved != nil {
			fc.scope = &nameScope{vals: map[string]Val{kname: {T: bound, S: SInt}}, parent: saved}
			body = fc.tr(st, ret.Results[0])
			fc.scope = saved
		} else {
			obj := fc.info().Defs[kid]
			st.env[objKey(obj)] = Val{T: bound, S: SInt, GT: obj.Type()}
			body = fc.tr(st, ret.Results[0])
			delete(st.env, objKey(obj))
		}
		if len(st.assume) != nAssume {
			fc.errorf("contract: quantifier body introduced definitions (not supported)")
		}
		rng := "(and (<= " + lo.T + " " + bound + ") (< " + bound + " " + hi.T + "))"
		if name == "forall" {
			return boolVal("(forall ((" + bound + " Int)) (=> " + rng + " " + body.T + "))")
		}
		return boolVal("(exists ((" + bound + " Int)) (and " + rng + " " + body.T + "))")
	}
	return boolVal("true")
}

func (fc *FnCtx) trContractCall2(st *State, call *ast.CallExpr, name string) Val {
	switch name {
	case "string", "int", "byte", "rune", "uint8":
		v := fc.tr(st, call.Args[0])
		if name == "string" && v.S == SInt {
			return Val{T: "(appendbyte emptystr " + v.T + ")", S: SStr}
		}
		return v
	case "bufContent": // content of a buffer / builder variable
		v := fc.tr(st, call.Args[0])
		if v.S == SBuf {
			return fc.bufGet(st, v)
		}
		return v
	case "scanFailed", "scanPos", "scanLines", "scanDone":
		v := fc.tr(st, call.Args[0])
		if v.S != SScan {
			fc.errorf("contract: %s needs a scanner", name)
			return boolVal("true")
		}
		switch name {
		case "scanFailed":
			return fc.readKey(st, v.Rec+".failed", types.Typ[types.Bool])
		case "scanPos":
			return fc.readKey(st, v.Rec+".pos", types.Typ[types.Int])
		case "scanLines":
			return fc.readKey(st, v.Rec+".lines", types.NewSlice(types.Typ[types.String]))
		}
	case "called":
		gname := ghostCallee(call.Args[0])
		if gname == "" {
			fc.errorf("contract: called(name) or called(pkg.name)")
			return boolVal("false")
		}
		v, ok := st.env["ghost.called."+gname]
		if !ok {
			return boolVal("false")
		}
		// in a clause over one iteration (body / leave): called during THIS iteration
		if fc.headEnv != nil {
			if hv, had := fc.headEnv["ghost.called."+gname]; had && hv.T == v.T {
				return boolVal("false")
			}
		}
		return boolVal("true")
	case "argOf":
		gname := ghostCallee(call.Args[0])
		bl, _ := call.Args[1].(*ast.BasicLit)
		if gname == "" || bl == nil {
			fc.errorf("contract: argOf(name, i)")
			return Val{S: SOpaque, T: "0"}
		}
		if v, ok := st.env["ghost.arg."+gname+"."+bl.Value]; ok {
			return v
		}
		return Val{S: SNil, T: "0"}
	case "atLoopEntry":
		ls := fc.loopEntry[fc.curLoop]
		if ls == nil {
			fc.errorf("atLoopEntry() used outside a loop clause")
			return fc.tr(st, call.Args[0])
		}
		tmp := &State{env: ls.env, assume: st.assume, guard: st.guard, fresh: ls.fresh}
		v := fc.tr(tmp, call.Args[0])
		st.assume = tmp.assume
		return v
	case "atHead":
		if fc.headEnv == nil {
			fc.errorf("atHead() used outside a loop body clause")
			return fc.tr(st, call.Args[0])
		}
		tmp := &State{env: fc.headEnv, assume: st.assume, guard: st.guard, fresh: fc.headFresh}
		v := fc.tr(tmp, call.Args[0])
		st.assume = tmp.assume
		return v
	case "resultOf":
		gname := ghostCallee(call.Args[0])
		bl, _ := call.Args[1].(*ast.BasicLit)
		if gname == "" || bl == nil {
			fc.errorf("contract: resultOf(name, i)")
			return Val{S: SOpaque, T: "0"}
		}
		if v, ok := st.env["ghost.ret."+gname+"."+bl.Value]; ok {
			return v
		}
		// not called on this path: an arbitrary value (clauses guard with called())
		return Val{S: SNil, T: "0"}
	case "fileContent":
		p := fc.tr(st, call.Args[0])
		return Val{T: "(fsread " + p.T + " " + fc.fsWrites(st).T + ")", S: SStr}
	case "lastRead":
		return fc.readKey(st, "ghost.lastRead", types.Typ[types.String])
	case "fsWrites":
		return fc.fsWrites(st)
	case "lastWritePath":
		return fc.readKey(st, "ghost.lastWritePath", types.Typ[types.String])
	case "lastWriteData":
		return fc.readKey(st, "ghost.lastWriteData", types.Typ[types.String])
	case "mapHas":
		m := fc.tr(st, call.Args[0])
		k := fc.tr(st, call.Args[1])
		return boolVal(fc.mapHas(st, m, k))
	case "isNil":
		v := fc.tr(st, call.Args[0])
		return boolVal(fc.isNilTerm(st, v))
	}
	// spec function?
	var obj types.Object
	switch f := call.Fun.(type) {
	case *ast.Ident:
		if o, ok := fc.scope.lookupObj(f.Name); ok {
			obj = o
		} else if p := fc.scope.thePkg(); p != nil {
			obj = p.Types.Scope().Lookup(f.Name)
		}
	case *ast.SelectorExpr:
		if id, ok := f.X.(*ast.Ident); ok {
			if p := fc.scope.thePkg(); p != nil {
				for _, imp := range p.Types.Imports() {
					if imp.Name() == id.Name {
						obj = imp.Scope().Lookup(f.Sel.Name)
					}
				}
			}
		}
	}
	if fn, ok := obj.(*types.Func); ok {
		if sf := fc.w.specFuncs[fn]; sf != nil {
			var args []string
			for _, a := range call.Args {
				args = append(args, fc.tr(st, a).T)
			}
			fc.w.useSpec(sf)
			sig := fn.Type().(*types.Signature)
			rt := sig.Results().At(0).Type()
			if len(args) == 0 {
				return Val{T: sf.smtName, S: sortOf(rt), GT: rt}
			}
			return Val{T: "(" + sf.smtName + " " + strings.Join(args, " ") + ")", S: sortOf(rt), GT: rt}
		}
	}
	fc.errorf("contract: unknown function %q", name)
	return Val{S: SOpaque, T: "0"}
}

// ---- calls by contract ----------------------------------------------------------

func (fc *FnCtx) callByContract(st *State, call *ast.CallExpr, fn *types.Func, recvExpr ast.Expr, c *Contract) []Val {
	sig := fn.Type().(*types.Signature)
	if fc.scope == nil && fc.contract != nil && fc.dry == 0 && fc.specMode == nil {
		// lemmas to be instantiated right before calls of this callee (`use call <callee> ...`)
		fc.useCallee = fn.Name()
		fc.applyUses(st, "use-call", -1, call.Pos(), call)
		fc.useCallee = ""
	}
	binds := map[string]Val{}
	// receiver
	var recvVal Val
	if recvExpr != nil {
		recvVal = fc.tr(st, recvExpr)
	}
	var argVals []Val
	for _, a := range call.Args {
		v := fc.tr(st, a)
		if t := fc.typeOf(a); t != nil && isNamed(t, "regexp", "Regexp") {
			fc.bindRegexArg(st, a, v)
		}
		argVals = append(argVals, v)
	}
	if c.Extern {
		names := c.Params
		i := 0
		if sig.Recv() != nil && len(names) == len(argVals)+1 {
			binds[names[0]] = recvVal
			i = 1
		}
		for j, v := range argVals {
			if i+j < len(names) {
				binds[names[i+j]] = v
			}
		}
	} else {
		if r := sig.Recv(); r != nil && r.Name() != "" && r.Name() != "_" {
			binds[r.Name()] = recvVal
		}
		for j := 0; j < sig.Params().Len() && j < len(argVals); j++ {
			v := argVals[j]
			if v.S == SNil {
				v = zeroVal(fc, st, sortOf(sig.Params().At(j).Type()), sig.Params().At(j).Type())
			}
			binds[sig.Params().At(j).Name()] = v
		}
	}
	calleePkg := fc.w.pkgByPath[c.Pkg]
	scope := &nameScope{vals: binds, pkg: calleePkg}
	savedScope, savedOld, savedOldFresh := fc.scope, fc.oldEnv, fc.oldFresh
	defer func() { fc.scope, fc.oldEnv, fc.oldFresh = savedScope, savedOld, savedOldFresh }()
	fc.scope = scope
	ord := fc.siteOrdinal("call", call)
	cname := c.Func
	// requires
	for i, cl := range c.clauses("requires") {
		t := fc.tr(st, cl.Expr)
		label := cl.Label
		if label == "" {
			label = fmt.Sprintf("%d", i)
		}
		tags := cl.Tags
		if len(tags) == 0 {
			tags = fc.contract.safetyTags()
		}
		fc.scope = nil
		if strings.Contains(" "+fc.contract.Opts["trust-pre"]+" ", " "+cname+" ") || strings.Contains(" "+fc.contract.Opts["trust-pre"]+" ", " "+cname+"/"+label+" ") {
			// explicitly assumed at this caller (listed in the evidence)
			if fc.dry == 0 {
				note := fmt.Sprintf("ASSUMED precondition of %s at %s: %s", cname, fc.pos(call), cl.Text)
				dup := false
				for _, n := range fc.notes {
					if n == note {
						dup = true
					}
				}
				if !dup {
					fc.notes = append(fc.notes, note)
				}
			}
			st.addAssume(t.T)
		} else {
			fc.oblige(st, fmt.Sprintf("pre:%s#%d/%s", cname, ord, label), "pre", tags, t.T, "precondition of "+cname+": "+cl.Text, call)
		}
		fc.scope = scope
	}
	// recursion (ghost lemmas): the callee's measure must be smaller than ours
	if c == fc.contract && len(fc.entryMeasure) > 0 {
		for i, cl := range c.clauses("fdecreases") {
			m := fc.tr(st, cl.Expr)
			fc.scope = nil
			fc.oblige(st, fmt.Sprintf("rec-decreases#%d/%d", ord, i), "decreases", fc.contract.tagsFor(cl),
				"(and (>= "+fc.entryMeasure[i]+" 0) (< "+m.T+" "+fc.entryMeasure[i]+"))", "recursive call decreases "+cl.Text, call)
			fc.scope = scope
		}
	} else if c == fc.contract && fc.dry == 0 {
		fc.errorf("recursive call without a `decreases` clause")
	}
	// pre-state for old()
	pre := st.clone()
	fc.oldEnv, fc.oldFresh = pre.env, pre.fresh
	// modifies
	declaresWrites := false
	for _, cl := range c.clauses("modifies") {
		for _, path := range strings.Split(cl.Text, ",") {
			path = strings.TrimSpace(path)
			if path == "" {
				continue
			}
			if path == "fsWrites" {
				declaresWrites = true
				fc.havocWrites(st)
				continue
			}
			fc.havocPath(st, scope, path)
		}
	}
	if !c.Extern && !declaresWrites {
		pk, nm := funcKey(fn)
		if fc.w.reachesEffect(pk+"::"+nm, "fswrite") && fc.dry == 0 {
			fc.errorf("%s: callee %s can write files but its contract has no `modifies fsWrites`", fc.pos(call), nm)
		}
	}
	// results
	var results []Val
	rnames := c.Results
	for i := 0; i < sig.Results().Len(); i++ {
		rt := sig.Results().At(i).Type()
		v := fc.freshVal(st, "r_"+fn.Name(), sortOf(rt), rt)
		if v.S == SBuf {
			st.env[v.Rec] = fc.freshVal(st, "bufc", SStr, nil)
		}
		results = append(results, v)
		nm := sig.Results().At(i).Name()
		if i < len(rnames) {
			nm = rnames[i]
		}
		if nm != "" {
			binds[nm] = v
		}
	}
	for _, cl := range c.clauses("ensures") {
		t := fc.tr(st, cl.Expr)
		st.addAssume(t.T)
	}
	fc.setGhost(st, "called", fn, "", boolVal("true"))
	for i, rv := range results {
		fc.setGhost(st, "ret", fn, fmt.Sprint(i), rv)
	}
	for i, av := range argVals {
		fc.setGhost(st, "arg", fn, fmt.Sprint(i), av)
	}
	if c.Opts["exits"] == "always" {
		st.env["$outcome"] = Val{T: "exit", S: SOpaque}
	}
	return results
}

// havocPath: a modifies-path given in callee terms (e.g. "o.groupReplacementStringBuilder",
// "processorStack", "a.proc.lines") is resolved in the call's scope and havoc'd.
func (fc *FnCtx) havocPath(st *State, scope *nameScope, path string) {
	parts := strings.Split(path, ".")
	var key string
	var gt types.Type
	if v, ok := scope.lookupVal(parts[0]); ok {
		if len(parts) == 1 {
			// the value itself (e.g. a *bytes.Buffer parameter): havoc content
			fc.havocVal(st, v)
			return
		}
		if v.S != SRec || v.Rec == "" {
			fc.errorf("modifies: %s is not a record", parts[0])
			return
		}
		key, gt = v.Rec, v.GT
		for _, f := range parts[1:] {
			ft := fc.fieldType(gt, f)
			k2 := key + "." + f
			if f == parts[len(parts)-1] {
				key, gt = k2, ft
				break
			}
			nv := fc.readKey(st, k2, ft)
			if nv.S != SRec {
				fc.errorf("modifies: %s: %s is not a record", path, f)
				return
			}
			key, gt = nv.Rec, ft
		}
	} else {
		var obj types.Object
		if p := scope.thePkg(); p != nil {
			obj = p.Types.Scope().Lookup(parts[0])
			if obj == nil && len(parts) >= 2 {
				for _, imp := range p.Types.Imports() {
					if imp.Name() == parts[0] {
						obj = imp.Scope().Lookup(parts[1])
						parts = parts[1:]
					}
				}
			}
		}
		if obj == nil {
			fc.errorf("modifies: cannot resolve %s", path)
			return
		}
		key, gt = objKey(obj), obj.Type()
		for _, f := range parts[1:] {
			nv := fc.readKey(st, key, gt)
			if nv.S != SRec {
				fc.errorf("modifies: %s: not a record", path)
				return
			}
			gt = fc.fieldType(nv.GT, f)
			key = nv.Rec + "." + f
		}
	}
	cur := fc.readKey(st, key, gt)
	switch cur.S {
	case SBuf, SRec, SMap, SScan:
		fc.havocVal(st, cur)
	default:
		st.env[key] = fc.freshVal(st, "mod_"+parts[len(parts)-1], sortOf(gt), gt)
	}
}

func (fc *FnCtx) havocVal(st *State, v Val) {
	switch v.S {
	case SBuf:
		st.env[v.Rec] = fc.freshVal(st, "bufh", SStr, nil)
	case SMap:
		delete(st.fresh, v.Rec)
		ks, vs, _, ok := mapSorts(v.GT)
		if ok {
			n1 := fc.freshName("hhas")
			fc.decls = append(fc.decls, fmt.Sprintf("(declare-const %s (Array %s Bool))", n1, ks.smt()))
			n2 := fc.freshName("hval")
			fc.decls = append(fc.decls, fmt.Sprintf("(declare-const %s (Array %s %s))", n2, ks.smt(), vs.smt()))
			st.env[v.Rec+".has"] = Val{T: n1, S: SOpaque, Raw: "(Array " + ks.smt() + " Bool)"}
			st.env[v.Rec+".val"] = Val{T: n2, S: SOpaque, Raw: "(Array " + ks.smt() + " " + vs.smt() + ")"}
		}
		l := fc.freshVal(st, "hlen", SInt, nil)
		st.addAssume("(>= " + l.T + " 0)")
		st.env[v.Rec+".len"] = l
	case SRec:
		// havoc all known fields of the record
		delete(st.fresh, v.Rec)
		prefix := v.Rec + "."
		for k, fv := range st.env {
			if strings.HasPrefix(k, prefix) && !strings.Contains(k[len(prefix):], ".") {
				switch fv.S {
				case SInt, SBool, SStr, SSL, SIL:
					st.env[k] = fc.freshVal(st, "fh", fv.S, fv.GT)
				}
			}
		}
	}
}

// aliasCheck: slices are modelled as values. `append(xs[:k], ...)` may write into the
// backing array of xs, which the value model hides; that is sound only if xs is dead
// afterwards (not read again before being reassigned). Checked syntactically.
func (fc *FnCtx) aliasCheck(st *State, call *ast.CallExpr) {
	if !fc.safetyOn() || fc.dry > 0 {
		return
	}
	se, ok := call.Args[0].(*ast.SliceExpr)
	if !ok {
		return
	}
	root := rootIdent(se.X)
	if root == nil {
		return
	}
	obj := fc.info().ObjectOf(root)
	if obj == nil {
		return
	}
	// region in which later reads matter: rest of the function after the call, plus the
	// whole body of the outermost enclosing loop
	from := call.End()
	loopStart, loopEnd := token.NoPos, token.NoPos
	ast.Inspect(fc.body, func(n ast.Node) bool {
		switch l := n.(type) {
		case *ast.ForStmt, *ast.RangeStmt:
			if l.Pos() <= call.Pos() && call.End() <= l.End() && loopStart == token.NoPos {
				loopStart, loopEnd = l.Pos(), l.End()
			}
		}
		return true
	})
	// the statement containing the call may reassign the variable itself: x = append(x[:k], ...)
	reassigned := false
	var badPos []string
	ast.Inspect(fc.body, func(n ast.Node) bool {
		if as, ok := n.(*ast.AssignStmt); ok && as.Pos() <= call.Pos() && call.End() <= as.End() {
			for _, l := range as.Lhs {
				if id, ok := l.(*ast.Ident); ok && fc.info().ObjectOf(id) == obj {
					reassigned = true
				}
			}
		}
		return true
	})
	if !reassigned {
		lhs := map[*ast.Ident]bool{}
		ast.Inspect(fc.body, func(n ast.Node) bool {
			if as, ok := n.(*ast.AssignStmt); ok {
				for _, l := range as.Lhs {
					if id, ok := l.(*ast.Ident); ok {
						lhs[id] = true
					}
				}
			}
			return true
		})
		ast.Inspect(fc.body, func(n ast.Node) bool {
			id, ok := n.(*ast.Ident)
			if !ok || fc.info().ObjectOf(id) != obj || lhs[id] {
				return true
			}
			inLoop := loopStart != token.NoPos && id.Pos() >= loopStart && id.End() <= loopEnd && !(id.Pos() >= call.Pos() && id.End() <= call.End())
			if id.Pos() >= from || inLoop {
				badPos = append(badPos, fc.pos(id))
			}
			return true
		})
	}
	ord := fc.siteOrdinal("alias", call)
	goal := "true"
	if len(badPos) > 0 {
		goal = "false"
	}
	fc.oblige(st, fmt.Sprintf("alias#%d", ord), "alias", fc.contract.safetyTags(), goal,
		fmt.Sprintf("%s is not read again after %s (the append may overwrite its backing array)%s", root.Name, exprString(call), func() string {
			if len(badPos) > 0 {
				return "; read at " + strings.Join(badPos, ", ")
			}
			return ""
		}()), call)
}

// inlineCall executes a straight-line callee (a constructor or trivial accessor marked
// `opt inline`) symbolically in place: equivalent to its strongest contract. Only callees
// whose body has a single path ending in one return are inlined.
func (fc *FnCtx) inlineCall(st *State, call *ast.CallExpr, fn *types.Func, recvExpr ast.Expr, pkgPath, name string) ([]Val, bool) {
	site := fc.w.funcs[pkgPath+"::"+name]
	if site == nil || site.decl == nil || fc.inlineDepth > 3 {
		return nil, false
	}
	sig := fn.Type().(*types.Signature)
	var args []Val
	for _, a := range call.Args {
		args = append(args, fc.tr(st, a))
	}
	var recvVal Val
	recvAutoAddr := false
	if recvExpr != nil {
		recvVal = fc.tr(st, recvExpr)
		// x.m() with a pointer receiver on an addressable scalar x: the callee's *recv is x
		if rt := fc.typeOf(recvExpr); rt != nil {
			if _, isPtr := rt.Underlying().(*types.Pointer); !isPtr {
				recvAutoAddr = true
			}
		}
	}
	// switch to the callee's package / signature for the duration of the body
	savedPkg, savedSig, savedKeys, savedBody, savedContract := fc.pkg, fc.sig, fc.resultKeys, fc.body, fc.contract
	fc.pkg, fc.sig, fc.body = site.pkg, sig, site.decl.Body
	fc.contract = &Contract{Pkg: pkgPath, Func: name, Opts: map[string]string{}, Tags: savedContract.Tags, Safety: savedContract.Safety}
	fc.resultKeys = nil
	fc.inlineDepth++
	for i := 0; i < sig.Results().Len(); i++ {
		r := sig.Results().At(i)
		if r.Name() != "" && r.Name() != "_" {
			fc.resultKeys = append(fc.resultKeys, objKey(r))
		} else {
			fc.resultKeys = append(fc.resultKeys, fmt.Sprintf("inl%d_result%d", fc.counter, i))
		}
	}
	restore := func() {
		fc.pkg, fc.sig, fc.resultKeys, fc.body, fc.contract = savedPkg, savedSig, savedKeys, savedBody, savedContract
		fc.inlineDepth--
	}
	derefK, derefInit := "", ""
	if r := sig.Recv(); r != nil && recvExpr != nil {
		fc.assignKey(st, objKey(r), r.Type(), recvVal)
		if pt, ok := r.Type().Underlying().(*types.Pointer); ok && recvAutoAddr {
			switch sortOf(pt.Elem()) {
			case SInt, SBool, SStr:
				derefK, derefInit = objKey(r)+".$deref", recvVal.T
				st.env[derefK] = Val{T: recvVal.T, S: sortOf(pt.Elem()), GT: pt.Elem()}
			}
		}
	}
	for i := 0; i < sig.Params().Len() && i < len(args); i++ {
		p := sig.Params().At(i)
		fc.assignKey(st, objKey(p), p.Type(), args[i])
	}
	probe := st.clone()
	fc.dry++
	outs := fc.execBlock(probe, site.decl.Body.List)
	fc.dry--
	if len(outs) != 1 || (outs[0].Kind != OReturn && outs[0].Kind != ONormal) {
		restore()
		return nil, false
	}
	// a body that stores through the receiver is not executed in place (the store would be lost)
	if derefK != "" && probe.env[derefK].T != derefInit {
		restore()
		return nil, false
	}
	keys := fc.resultKeys
	outs = fc.execBlock(st, site.decl.Body.List)
	var results []Val
	for i, k := range keys {
		results = append(results, fc.readKey(st, k, sig.Results().At(i).Type()))
	}
	restore()
	return results, true
}

// ghostCallee: the callee named in called/argOf/resultOf: `name`, or `pkg.name` when two
// callees of the function share a name (context.New / configuration.New).
func ghostCallee(e ast.Expr) string {
	switch x := e.(type) {
	case *ast.Ident:
		return x.Name
	case *ast.SelectorExpr:
		if id, ok := x.X.(*ast.Ident); ok {
			return id.Name + "/" + x.Sel.Name
		}
	}
	return ""
}

// isSimpleExpr: an expression without calls (conversions aside), safe to translate twice.
func (fc *FnCtx) isSimpleExpr(e ast.Expr) bool {
	switch x := e.(type) {
	case *ast.Ident, *ast.BasicLit:
		return true
	case *ast.SelectorExpr:
		return fc.isSimpleExpr(x.X)
	case *ast.ParenExpr:
		return fc.isSimpleExpr(x.X)
	case *ast.StarExpr:
		return fc.isSimpleExpr(x.X)
	case *ast.UnaryExpr:
		return fc.isSimpleExpr(x.X)
	case *ast.BinaryExpr:
		return fc.isSimpleExpr(x.X) && fc.isSimpleExpr(x.Y)
	case *ast.IndexExpr:
		return fc.isSimpleExpr(x.X) && fc.isSimpleExpr(x.Index)
	case *ast.CallExpr:
		if info := fc.info(); info != nil && len(x.Args) == 1 {
			if tv, ok := info.Types[x.Fun]; ok && tv.IsType() {
				return fc.isSimpleExpr(x.Args[0])
			}
		}
	}
	return false
}

func (fc *FnCtx) clearGhost(st *State, kind string, fn *types.Func, idx string) {
	names := []string{fn.Name()}
	if fn.Pkg() != nil {
		names = append(names, fn.Pkg().Name()+"/"+fn.Name())
	}
	for _, n := range names {
		delete(st.env, "ghost."+kind+"."+n+"."+idx)
	}
}

// setGhost records a path ghost of a call under the callee's name and under pkg/name.
func (fc *FnCtx) setGhost(st *State, kind string, fn *types.Func, idx string, v Val) {
	names := []string{fn.Name()}
	if fn.Pkg() != nil {
		names = append(names, fn.Pkg().Name()+"/"+fn.Name())
	}
	for _, n := range names {
		k := "ghost." + kind + "." + n
		if idx != "" {
			k += "." + idx
		}
		st.env[k] = v
	}
}

func appendUnique(xs []string, x string) []string {
	for _, y := range xs {
		if y == x {
			return xs
		}
	}
	return append(xs, x)
}

// havocRecordDeep: forget everything known about a record and the records nested in it.
// havocMap: an unmodelled callee was handed the map (or a pointer to it): membership, values
// and length are unknown afterwards.
func (fc *FnCtx) havocMap(st *State, m Val) {
	if m.Rec == "" {
		return
	}
	delete(st.fresh, m.Rec)
	fc.mapArrays(st, m) // materialise the arrays so that they can be replaced
	if et := func() types.Type { _, _, et, _ := mapSorts(m.GT); return et }(); et != nil {
		if fields, ok := structFieldsOf(et); ok {
			for _, f := range fields {
				fc.mapFieldArray(st, m, f)
			}
		}
	}
	prefix := m.Rec + "."
	for k, v := range st.env {
		if !strings.HasPrefix(k, prefix) {
			continue
		}
		switch {
		case v.S == SOpaque && v.Raw != "":
			n := fc.freshName("hvmap")
			fc.decls = append(fc.decls, fmt.Sprintf("(declare-const %s %s)", n, v.Raw))
			st.env[k] = Val{T: n, S: SOpaque, Raw: v.Raw}
		case v.S == SInt:
			nv := fc.freshVal(st, "maplen", SInt, nil)
			st.assume = append(st.assume, "(>= "+nv.T+" 0)")
			st.env[k] = nv
		}
	}
	if _, ok := st.env[m.Rec+".len"]; !ok {
		nv := fc.freshVal(st, "maplen", SInt, nil)
		st.assume = append(st.assume, "(>= "+nv.T+" 0)")
		st.env[m.Rec+".len"] = nv
	}
}

func (fc *FnCtx) havocRecordDeep(st *State, rec string) {
	delete(st.fresh, rec)
	prefix := rec + "."
	for k, fv := range st.env {
		if !strings.HasPrefix(k, prefix) {
			continue
		}
		switch fv.S {
		case SInt, SBool, SStr, SSL, SIL:
			st.env[k] = fc.freshVal(st, "ph", fv.S, fv.GT)
		case SRec:
			if fv.Rec != "" && fv.Rec != rec {
				fc.havocRecordDeep(st, fv.Rec)
			}
		case SMap:
			fc.havocMap(st, fv)
		}
	}
	// fields never read so far must not default to zero any more: give the record a new,
	// non-fresh identity for lazily created fields
	st.env[rec+".$havoc"] = Val{T: fc.freshName("hv"), S: SOpaque}
}
