package main

import (
	"flag"
	"fmt"
	"os"
	"sort"
	"strings"
	"time"
)

func main() {
	if len(os.Args) < 2 {
		fmt.Fprintln(os.Stderr, "usage: govc check <property> [--tier quick|thorough] | dump <func> | list")
		os.Exit(2)
	}
	defer cleanupScratch()
	switch os.Args[1] {
	case "check":
		os.Exit(cmdCheck(os.Args[2:]))
	case "dump":
		os.Exit(cmdDump(os.Args[2:]))
	default:
		fmt.Fprintln(os.Stderr, "unknown command", os.Args[1])
		os.Exit(2)
	}
}

func hasTag(tags []string, t string) bool {
	for _, x := range tags {
		if x == t {
			return true
		}
	}
	return false
}

type Run struct {
	w    *World
	fcs  []*FnCtx
	obls []*Obligation
	owner map[*Obligation]*FnCtx
}

func generate(repo string) (*Run, error) {
	w, err := loadWorld(repo)
	if err != nil {
		return nil, err
	}
	r := &Run{w: w, owner: map[*Obligation]*FnCtx{}}
	for _, c := range w.cs.Contracts {
		if c.Extern {
			continue
		}
		site := w.funcs[c.Pkg+"::"+c.Func]
		if site == nil {
			// contract no longer attached to code: fails for every tagged property
			fc := &FnCtx{w: w, qname: pkgShort(c.Pkg) + "." + c.Func, contract: c, obls: map[string]*Obligation{}}
			ob := &Obligation{Name: fc.qname + "/contract-attached", Func: fc.qname, Kind: "contract-attached", Tags: c.Tags, Descr: "the function this contract is keyed to exists", Status: "failed", Detail: "function not found in /repo"}
			ob.Queries = nil
			r.obls = append(r.obls, ob)
			r.owner[ob] = fc
			r.fcs = append(r.fcs, fc)
			continue
		}
		c.Attached = true
		fc := w.newFnCtx(site, c)
		fc.verify()
		r.fcs = append(r.fcs, fc)
		for _, n := range fc.oblOrder {
			ob := fc.obls[n]
			r.obls = append(r.obls, ob)
			r.owner[ob] = fc
		}
	}
	return r, nil
}

func cmdDump(args []string) int {
	fs := flag.NewFlagSet("dump", flag.ExitOnError)
	repo := fs.String("repo", "/repo", "repository")
	which := fs.String("ob", "", "obligation substring whose query to print")
	fs.Parse(args)
	r, err := generate(*repo)
	if err != nil {
		fmt.Fprintln(os.Stderr, err)
		return 2
	}
	for _, sf := range r.w.specList {
		if sf.err != "" {
			fmt.Printf("SPEC ERROR %s: %s\n", sf.smtName, sf.err)
		}
	}
	for _, fc := range r.fcs {
		if len(fs.Args()) > 0 && !strings.Contains(fc.qname, fs.Arg(0)) {
			continue
		}
		fmt.Printf("== %s: %d obligations, errors=%d\n", fc.qname, len(fc.oblOrder), len(fc.errors))
		for _, e := range fc.errors {
			fmt.Println("   ERROR:", e)
		}
		for _, n := range fc.notes {
			fmt.Println("   note:", n)
		}
		for _, u := range sortedKeys(fc.unmodelled) {
			fmt.Println("   unmodelled:", u)
		}
		for _, n := range fc.oblOrder {
			ob := fc.obls[n]
			fmt.Printf("   %s [%s] paths=%d  %s\n", ob.Name, strings.Join(ob.Tags, ","), len(ob.Queries), ob.Descr)
			if *which != "" && strings.Contains(ob.Name, *which) && len(ob.Queries) > 0 {
				fmt.Println(fc.queryText(ob.Queries[0]))
			}
		}
	}
	return 0
}

func cmdCheck(args []string) int {
	fs := flag.NewFlagSet("check", flag.ExitOnError)
	repo := fs.String("repo", "/repo", "repository")
	tier := fs.String("tier", "quick", "quick|thorough")
	all := fs.Bool("all", false, "run every obligation regardless of tag")
	verbose := fs.Bool("v", false, "verbose")
	var prop string
	if len(args) > 0 && !strings.HasPrefix(args[0], "-") {
		prop = args[0]
		args = args[1:]
	}
	fs.Parse(args)
	start := time.Now()
	r, err := generate(*repo)
	if err != nil {
		fmt.Fprintln(os.Stderr, err)
		return 2
	}
	timeout := 10 * time.Second
	if *tier == "thorough" {
		timeout = 60 * time.Second
	}
	var sel []*Obligation
	for _, ob := range r.obls {
		if *all || hasTag(ob.Tags, prop) {
			sel = append(sel, ob)
		}
	}
	runParallel(len(sel), 6, func(i int) {
		ob := sel[i]
		if ob.Status != "" {
			return
		}
		r.owner[ob].solveObligation(ob, timeout)
	})
	sort.SliceStable(sel, func(i, j int) bool { return sel[i].Name < sel[j].Name })
	failed := 0
	for _, ob := range sel {
		if ob.Status != "discharged" {
			failed++
			fmt.Printf("FAILED     %s  %s\n           %s\n", ob.Name, ob.Descr, strings.ReplaceAll(ob.Detail, "\n", "\n           "))
		} else if *verbose {
			fmt.Printf("discharged %s (%s, %d ms)\n", ob.Name, ob.Solver, ob.Ms)
		}
	}
	for _, fc := range r.fcs {
		for _, e := range fc.errors {
			fmt.Printf("GENERATOR-ERROR %s: %s\n", fc.qname, e)
		}
	}
	fmt.Printf("%s: %d obligations, %d discharged, %d failed, %.1fs\n", prop, len(sel), len(sel)-failed, failed, time.Since(start).Seconds())
	if failed > 0 {
		return 1
	}
	return 0
}
