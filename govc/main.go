package main

import (
	"encoding/json"
	"flag"
	"fmt"
	"os"
	"path/filepath"
	"sort"
	"strings"
	"time"
)

func main() {
	if len(os.Args) < 2 {
		fmt.Fprintln(os.Stderr, "usage: govc check <property> [--tier quick|thorough] | dump <func> | list")
		os.Exit(2)
	}
	rc := 2
	switch os.Args[1] {
	case "check":
		rc = cmdCheck(os.Args[2:])
	case "dump":
		rc = cmdDump(os.Args[2:])
	case "replay":
		rc = cmdReplay(os.Args[2:])
	case "axioms":
		rc = cmdAxioms(os.Args[2:])
	case "rtc":
		rc = cmdRtc(os.Args[2:])
	default:
		fmt.Fprintln(os.Stderr, "unknown command", os.Args[1])
	}
	cleanupScratch()
	os.Exit(rc)
}

func hasTag(tags []string, t string) bool {
	for _, x := range tags {
		if x == t {
			return true
		}
	}
	return false
}

type Run struct {
	w    *World
	fcs  []*FnCtx
	obls []*Obligation
	owner map[*Obligation]*FnCtx
	cg    *CallGraph
	bounded []*BoundedSpec
	assumed []string
	tier  string
	prop  string
	rtc         []*rtcFunc
	rtcSelected map[string]bool
	rtcNotes    []string
}

func generate(repo string) (*Run, error) {
	w, err := loadWorld(repo)
	if err != nil {
		return nil, err
	}
	r := &Run{w: w, owner: map[*Obligation]*FnCtx{}}
	for _, c := range w.cs.Contracts {
		if c.Extern {
			continue
		}
		site := w.funcs[c.Pkg+"::"+c.Func]
		if site == nil {
			// contract no longer attached to code: fails for every tagged property
			fc := &FnCtx{w: w, qname: pkgShort(c.Pkg) + "." + c.Func, contract: c, obls: map[string]*Obligation{}}
			ob := &Obligation{Name: fc.qname + "/contract-attached", Func: fc.qname, Kind: "contract-attached", Tags: c.Tags, Descr: "the function this contract is keyed to exists", Status: "failed", Detail: "function not found in /repo"}
			ob.Queries = nil
			r.obls = append(r.obls, ob)
			r.owner[ob] = fc
			r.fcs = append(r.fcs, fc)
			continue
		}
		c.Attached = true
		fc := w.newFnCtx(site, c)
		if c.Opts["assumed"] != "" {
			// an assumed lemma (axiom): usable through `use` clauses and ghost calls, never proved
			fc.notes = append(fc.notes, "ASSUMED lemma (axiom, not proved): "+c.Func+" - "+c.Opts["assumed"])
			r.fcs = append(r.fcs, fc)
			r.assumed = append(r.assumed, fc.qname+": "+c.Opts["assumed"])
			continue
		}
		fc.verify()
		r.fcs = append(r.fcs, fc)
		for _, n := range fc.oblOrder {
			ob := fc.obls[n]
			r.obls = append(r.obls, ob)
			r.owner[ob] = fc
		}
		if tags := c.Opts["scan-complete"]; tags != "" {
			ob := r.scanBytesObligation(fc, strings.Fields(tags))
			r.obls = append(r.obls, ob)
			r.owner[ob] = fc
		}
	}
	for _, c := range w.cs.Contracts {
		r.rtc = append(r.rtc, w.newRtcFunc(c))
	}
	for _, rl := range w.cs.RegLemmas {
		r.obls = append(r.obls, r.regLemmaObligation(pkgShort(rl.Pkg)+".reglemma/"+rl.Name, rl.Tags, rl.Text, "regular-language lemma over the pattern literals of the current source"))
	}
	for _, d := range w.cs.Directives {
		r.obls = append(r.obls, r.directiveObligations(d)...)
	}
	return r, nil
}

func cmdDump(args []string) int {
	fs := flag.NewFlagSet("dump", flag.ExitOnError)
	repo := fs.String("repo", "/repo", "repository")
	which := fs.String("ob", "", "obligation substring whose query to print")
	fs.Parse(args)
	r, err := generate(*repo)
	if err != nil {
		fmt.Fprintln(os.Stderr, err)
		return 2
	}
	for _, sf := range r.w.specList {
		if sf.err != "" {
			fmt.Printf("SPEC ERROR %s: %s\n", sf.smtName, sf.err)
		}
	}
	for _, fc := range r.fcs {
		if len(fs.Args()) > 0 && !strings.Contains(fc.qname, fs.Arg(0)) {
			continue
		}
		fmt.Printf("== %s: %d obligations, errors=%d\n", fc.qname, len(fc.oblOrder), len(fc.errors))
		for _, e := range fc.errors {
			fmt.Println("   ERROR:", e)
		}
		for _, n := range fc.notes {
			fmt.Println("   note:", n)
		}
		for _, u := range sortedKeys(fc.unmodelled) {
			fmt.Println("   unmodelled:", u)
		}
		for _, n := range fc.oblOrder {
			ob := fc.obls[n]
			fmt.Printf("   %s [%s] paths=%d  %s\n", ob.Name, strings.Join(ob.Tags, ","), len(ob.Queries), ob.Descr)
			if *which != "" && strings.Contains(ob.Name, *which) && len(ob.Queries) > 0 {
				for qi, q := range ob.Queries {
					fmt.Printf(";;;; QUERY %d\n", qi)
					fmt.Println(fc.queryText(q))
				}
			}
		}
	}
	return 0
}

func manifestLevel(prop string) string {
	b, err := os.ReadFile(filepath.Join(verifDir, "MANIFEST.json"))
	if err != nil {
		return "other"
	}
	var m struct {
		Checks []struct {
			PropertyID   string `json:"property_id"`
			LevelClaimed struct {
				Category string `json:"category"`
			} `json:"level_claimed"`
		} `json:"checks"`
	}
	if json.Unmarshal(b, &m) != nil {
		return "other"
	}
	for _, c := range m.Checks {
		if c.PropertyID == prop && c.LevelClaimed.Category != "" {
			return c.LevelClaimed.Category
		}
	}
	return "other"
}

func cmdCheck(args []string) int {
	fs := flag.NewFlagSet("check", flag.ExitOnError)
	repo := fs.String("repo", "/repo", "repository")
	tier := fs.String("tier", "quick", "quick|thorough")
	verbose := fs.Bool("v", false, "verbose")
	noEvidence := fs.Bool("no-evidence", false, "do not write evidence/replay files (selftest)")
	only := fs.String("only", "", "run only the obligation with this exact name")
	var prop string
	if len(args) > 0 && !strings.HasPrefix(args[0], "-") {
		prop = args[0]
		args = args[1:]
	}
	fs.Parse(args)
	if t := os.Getenv("VERIF_TIER"); t == "quick" || t == "thorough" {
		*tier = t
	}
	start := time.Now()
	r, err := generate(*repo)
	if err != nil {
		fmt.Println("govc: cannot load /repo with -tags verif:", err)
		fmt.Printf("VIOLATION property=%s replay=%s no-failing-input-found\n", prop, "/verif/replays/"+prop+"-load-error.json")
		if !*noEvidence {
			writeReplay(&Replay{Property: prop, Obligation: "load-error", Kind: "load", Description: "the repository (with the contract files) no longer type-checks", Status: "error", SolverOut: err.Error(), NoInput: true})
		}
		return 1
	}
	timeout := 10 * time.Second
	if *tier == "thorough" {
		timeout = 60 * time.Second
	}
	r.tier, r.prop = *tier, prop
	var sel []*Obligation
	for _, ob := range r.obls {
		if (prop == "all" && len(ob.Tags) > 0 && !hasTag(ob.Tags, "none")) || hasTag(ob.Tags, prop) {
			if *only != "" && ob.Name != *only {
				continue
			}
			sel = append(sel, ob)
		}
	}
	extra := r.extraObligations(prop, *tier)
	sel = append(sel, extra...)
	if os.Getenv("GOVC_NO_RTC") == "" {
		selFuncs, selExterns, selLemmas := map[string]bool{}, map[string]bool{}, map[string]bool{}
		for _, ob := range sel {
			selFuncs[ob.Func] = true
		}
		for _, fc := range r.fcs {
			if !selFuncs[fc.qname] {
				continue
			}
			for e := range fc.externs {
				selExterns[e] = true
			}
			if fc.contract != nil {
				for _, cl := range fc.contract.Clauses {
					if strings.HasPrefix(cl.Kind, "use-") {
						if i := strings.Index(cl.Text, "("); i > 0 {
							n := strings.TrimSpace(cl.Text[:i])
							if j := strings.LastIndex(n, "."); j >= 0 {
								n = n[j+1:]
							}
							selLemmas[n] = true
						}
					}
				}
			}
		}
		for _, ob := range r.rtcObligations(prop, selFuncs, selExterns, selLemmas) {
			if *only == "" || ob.Name == *only {
				sel = append(sel, ob)
			}
		}
	}
	if *only == "" {
		sel = append(sel, r.axiomProbeObligation(sel, prop))
	}
	kfs := loadKnownFindings()
	runParallel(len(sel), 8, func(i int) {
		ob := sel[i]
		if ob.Status != "" {
			return
		}
		to := timeout
		if findingFor(kfs, prop, ob.Name) != nil && to > 3*time.Second {
			// a recorded finding is expected not to discharge: do not wait long for it
			to = 3 * time.Second
		}
		if ob.Run != nil {
			ob.Run(ob, to)
			return
		}
		r.owner[ob].solveObligation(ob, to)
	})
	// second attempt for SMT obligations that ran out of time (a loaded machine must not turn
	// into an alarm): a few at a time, three times the budget. A failure with a model (sat) or
	// an ill-formed query is final; so is a second time-out.
	var late []*Obligation
	for _, ob := range sel {
		if ob.Run == nil && !ob.MustFail && ob.Status == "failed" && (ob.FailStatus == "timeout" || ob.FailStatus == "unknown") &&
			findingFor(kfs, prop, ob.Name) == nil && r.owner[ob] != nil {
			late = append(late, ob)
		}
	}
	if len(late) > 0 && len(late) <= 8 {
		runParallel(len(late), 4, func(i int) {
			ob := late[i]
			first := ob.Detail
			ob.Status, ob.Detail, ob.FailText, ob.FailStatus = "", "", "", ""
			r.owner[ob].solveObligation(ob, 3*timeout)
			if ob.Status == "discharged" {
				ob.Detail = "discharged on the second attempt; the first ran out of time: " + first
			}
		})
	}
	sort.SliceStable(sel, func(i, j int) bool { return sel[i].Name < sel[j].Name })
	var samples []map[string]interface{}
	var known []map[string]string
	funcs := map[string]bool{}
	var solverMs int64
	nObl, nDis, nCanary, nBounded, nBoundedOK, violations := 0, 0, 0, 0, 0, 0
	axiomProbesRun := 0
	nRtc, rtcCases := 0, 0
	var rtcIdle []string
	backends := map[string]int{}
	var boundedList []map[string]interface{}
	var genErrors []string
	// failing inputs found by the executable contracts, by function and clause label: a failed
	// SMT obligation of the same clause borrows the input (the solvers give no model there)
	rtcWitness := map[string]*Obligation{}
	for _, ob := range sel {
		if ob.Kind == "rtc" && ob.Status == "failed" && ob.Witness != "" {
			parts := strings.Split(ob.Name, "/")
			rtcWitness[ob.Func+"/"+parts[len(parts)-1]] = ob
		}
	}
	for _, ob := range sel {
		funcs[ob.Func] = true
		solverMs += ob.Ms
		if ob.Kind == "canary" {
			nCanary++
			if ob.Name == "govc.axioms/probes" {
				axiomProbesRun = ob.Cases
			}
			if ob.Status != "discharged" {
				violations++
				p, _ := maybeReplay(*noEvidence, &Replay{Property: prop, Obligation: ob.Name, Kind: ob.Kind, Description: ob.Descr, Status: "vacuous", SolverOut: ob.Detail, NoInput: true})
				fmt.Printf("VIOLATION property=%s replay=%s no-failing-input-found\n", prop, p)
			}
			continue
		}
		if ob.Kind == "rtc" && ob.Status == "discharged" && ob.Cases == 0 {
			// nothing was executed (ghost-state clause, function not runnable): says nothing
			rtcIdle = append(rtcIdle, ob.Name+": "+ob.Detail)
			continue
		}
		if ob.Kind == "rtc" {
			nRtc++
			rtcCases += ob.Cases
		}
		if ob.Bounded {
			nBounded++
			boundedList = append(boundedList, map[string]interface{}{"obligation": ob.Name, "domain": ob.Domain, "cases": ob.Cases, "status": ob.Status})
		}
		if ob.Status == "discharged" {
			if ob.Bounded {
				nBoundedOK++
			} else {
				nObl++
				nDis++
				for _, sname := range strings.Split(ob.Solver, ",") {
					backends[sname]++
				}
				if len(samples) < 60 {
					samples = append(samples, map[string]interface{}{"obligation": ob.Name, "kind": ob.Kind, "backend": ob.Solver, "ms": ob.Ms, "what": ob.Descr})
				}
			}
			if *verbose {
				fmt.Printf("discharged %s (%s, %d ms)\n", ob.Name, ob.Solver, ob.Ms)
			}
			continue
		}
		// failed
		if kf := findingFor(kfs, prop, ob.Name); kf != nil && (kf.Witness == "" || kf.Witness == ob.Witness) {
			fmt.Printf("KNOWN-FINDING: property=%s obligation=%s %s\n", prop, ob.Name, kf.Text)
			known = append(known, map[string]string{"obligation": ob.Name, "finding": kf.Text, "status": firstLine(ob.Detail)})
			continue
		}
		if !ob.Bounded {
			nObl++
		}
		violations++
		if ob.Witness == "" && ob.Kind == "post" {
			parts := strings.Split(ob.Name, "/")
			if w := rtcWitness[ob.Func+"/"+parts[len(parts)-1]]; w != nil {
				ob.Witness = w.Witness
				ob.WitnessNote = "failing input found by running the real function against the same clause (" + w.Name + "): " + w.WitnessNote
				ob.ReplayPkg = w.ReplayPkg
				ob.Detail += "\nfailing input (executable contract " + w.Name + "): " + w.Witness
			}
		}
		rp := &Replay{Property: prop, Obligation: ob.Name, Kind: ob.Kind, Description: ob.Descr, Position: ob.Pos, Status: ob.FailStatus, SolverOut: ob.Detail, Query: ob.FailText, NoInput: ob.Witness == "",
			Witness: ob.Witness, WitnessNote: ob.WitnessNote, ReplayTest: ob.ReplayTest, ReplayPkg: ob.ReplayPkg}
		p, _ := maybeReplay(*noEvidence, rp)
		suffix := ""
		if ob.Witness == "" {
			suffix = " no-failing-input-found"
		}
		fmt.Printf("FAILED %s: %s\n       %s\n", ob.Name, ob.Descr, strings.ReplaceAll(firstLines(ob.Detail, 6), "\n", "\n       "))
		fmt.Printf("VIOLATION property=%s replay=%s%s\n", prop, p, suffix)
	}
	var unmodelled, abstracted, notes, externs []string
	for _, fc := range r.fcs {
		if !funcs[fc.qname] {
			continue
		}
		for _, e := range fc.errors {
			genErrors = append(genErrors, fc.qname+": "+e)
		}
		for _, u := range sortedKeys(fc.unmodelled) {
			unmodelled = append(unmodelled, fc.qname+": "+u)
		}
		for _, a := range fc.abstracted {
			abstracted = append(abstracted, fc.qname+": "+a)
		}
		for _, n := range fc.notes {
			notes = append(notes, fc.qname+": "+n)
		}
		for _, e := range sortedKeys(fc.externs) {
			externs = append(externs, e)
		}
	}
	for _, n := range r.rtcNotes {
		notes = append(notes, "executable contracts: "+n)
	}
	for _, n := range rtcIdle {
		notes = append(notes, "executable contracts: "+n)
	}
	for _, sf := range r.w.specList {
		if sf.err != "" {
			genErrors = append(genErrors, "spec function "+sf.fn.Name()+": "+sf.err)
		}
	}
	genErrors = uniqSorted(genErrors)
	for _, e := range genErrors {
		// a generator error means the proof does not cover the code that runs
		violations++
		p, _ := maybeReplay(*noEvidence, &Replay{Property: prop, Obligation: "generator-error", Kind: "generator", Description: "the condition generator could not translate code or contract", Status: "error", SolverOut: e, NoInput: true})
		fmt.Printf("GENERATOR-ERROR %s\n", e)
		fmt.Printf("VIOLATION property=%s replay=%s no-failing-input-found\n", prop, p)
	}
	if nObl == 0 && nBounded == 0 && violations == 0 {
		violations++
		fmt.Printf("no obligations were generated for %s (vacuous check)\n", prop)
		p, _ := maybeReplay(*noEvidence, &Replay{Property: prop, Obligation: "no-obligations", Kind: "vacuity", Description: "no obligations generated", Status: "error", NoInput: true})
		fmt.Printf("VIOLATION property=%s replay=%s no-failing-input-found\n", prop, p)
	}
	wall := time.Since(start).Seconds()
	fnames := sortedKeys(funcs)
	level := manifestLevel(prop)
	cov := map[string]interface{}{
		"obligations":              nObl,
		"discharged":               nDis,
		"checker_cmd":              "/verif/bin/govc check " + prop + " --tier " + *tier,
		"trusted_base":             trustedBase(),
		"samples":                  samples,
		"functions_under_contract": fnames,
		"backends":                 backends,
		"solver_time_s":            float64(solverMs) / 1000.0,
		"vacuity_canaries":         nCanary,
		"axiom_probes":             axiomProbesRun,
		"executable_contract_clauses": nRtc,
		"executable_contract_cases":   rtcCases,
		"bounded":                  boundedList,
		"bounded_total":            nBounded,
		"bounded_passed":           nBoundedOK,
		"known_findings":           known,
		"assumed_extern_contracts": uniqSorted(externs),
		"unmodelled_calls":         uniqSorted(unmodelled),
		"abstracted_statements":    uniqSorted(abstracted),
		"notes":                    uniqSorted(notes),
		"explanation":              propExplanation(prop),
		"evaluations":              nObl + nBounded,
		"distinct_nontrivial":      nObl + nBounded,
		"rule":                     "one case = one named proof obligation generated from /repo's current source (distinct by name; canaries excluded); bounded stand-ins are listed separately under `bounded` and never counted in obligations/discharged",
	}
	asm := assumptionsFor(uniqSorted(externs), uniqSorted(unmodelled))
	for _, a := range r.assumed {
		asm = append(asm, "assumed lemma (axiom): "+a)
	}
	for _, n := range uniqSorted(notes) {
		if strings.Contains(n, "ASSUMED") {
			asm = append(asm, n)
		}
	}
	ev := &Evidence{PropertyID: prop, Tier: *tier, Seed: seedFromEnv(), Level: level, Coverage: cov, Assumptions: asm, WallS: wall, Violations: violations}
	if !*noEvidence {
		if err := writeEvidence(ev); err != nil {
			fmt.Println("cannot write evidence:", err)
			return 2
		}
	}
	fmt.Printf("%s [%s]: %d obligations, %d discharged, %d bounded (%d ok), %d known findings, %d violations, %.1fs\n", prop, *tier, nObl, nDis, nBounded, nBoundedOK, len(known), violations, wall)
	if violations > 0 {
		return 1
	}
	return 0
}

func maybeReplay(skip bool, rp *Replay) (string, error) {
	if skip {
		return replayPath(rp.Property, rp.Obligation), nil
	}
	return writeReplay(rp)
}

func firstLine(s string) string { return firstLines(s, 1) }

func firstLines(s string, n int) string {
	ls := strings.Split(s, "\n")
	if len(ls) > n {
		ls = ls[:n]
	}
	return strings.Join(ls, "\n")
}

func trustedBase() []string {
	return []string{
		"govc (this generator): translation of the Go subset to verification conditions, library ghost models (strings.Builder/bytes.Buffer/bufio.Scanner/fmt.Sprint*), path enumeration",
		"SMT solvers z3 4.8.12, z3 5.1.0, cvc5 1.0.3 (an obligation counts as discharged when one of them answers unsat)",
		"go/packages + go/types (golang.org/x/tools v0.29.0) as the front end",
		"spec functions are total and terminating Go functions (compiled under -tags verif)",
		"no aliasing between distinct pointer/slice parameters; pointer receivers and pointer parameters are non-nil",
		"integers are mathematical in the solver; int parameters assumed within 64-bit range, uint8 arithmetic wraps modulo 256 exactly",
	}
}

func assumptionsFor(externs, unmodelled []string) []string {
	out := append([]string{}, trustedBase()...)
	for _, e := range externs {
		out = append(out, "assumed (extern) contract: "+e)
	}
	if len(unmodelled) > 0 {
		out = append(out, fmt.Sprintf("%d call sites are unmodelled (results havoc'd): see coverage.unmodelled_calls", len(unmodelled)))
	}
	return out
}

// replay: re-decides the obligation recorded in a replay file against the current tree
// (for witnesses of bounded / regular-language obligations this re-runs the real code on
// the recorded input as part of the obligation). Exit 1 if it still fails.
func cmdReplay(args []string) int {
	if len(args) < 1 {
		fmt.Fprintln(os.Stderr, "usage: govc replay <replay file>")
		return 2
	}
	b, err := os.ReadFile(args[0])
	if err != nil {
		fmt.Fprintln(os.Stderr, err)
		return 2
	}
	var rp Replay
	if err := json.Unmarshal(b, &rp); err != nil {
		fmt.Fprintln(os.Stderr, err)
		return 2
	}
	fmt.Printf("replaying obligation %s of %s\n  %s\n  recorded status: %s\n", rp.Obligation, rp.Property, rp.Description, rp.Status)
	if rp.Witness != "" {
		fmt.Printf("  recorded failing input: %q (%s)\n", rp.Witness, rp.WitnessNote)
	} else {
		fmt.Printf("  no failing input was recorded; solver output:\n%s\n", rp.SolverOut)
	}
	return cmdCheck([]string{rp.Property, "--no-evidence", "--only", rp.Obligation, "-v"})
}
