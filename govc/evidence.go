package main

// Evidence files, known findings, replay files, VIOLATION lines.

import (
	"bufio"
	"encoding/json"
	"fmt"
	"os"
	"path/filepath"
	"regexp"
	"sort"
	"strconv"
	"strings"
)

var verifDir = func() string {
	if d := os.Getenv("VERIF_DIR"); d != "" {
		return d
	}
	return "/verif"
}()

type KnownFinding struct {
	Kind       string // finding | fixed
	Property   string
	Obligation string
	Text       string
	Commit     string
	Witness    string // optional: the finding is this failing input only (witness="<go string literal>")
}

var kfRe = regexp.MustCompile(`^(finding|fixed):\s+property=(\S+)\s+(?:obligation=(\S+)\s+)?(.*)$`)

var kfWitnessRe = regexp.MustCompile(`witness=("(?:[^"\\]|\\.)*")`)

func loadKnownFindings() []KnownFinding {
	f, err := os.Open(filepath.Join(verifDir, "KNOWN_FINDINGS"))
	if err != nil {
		return nil
	}
	defer f.Close()
	var out []KnownFinding
	sc := bufio.NewScanner(f)
	sc.Buffer(make([]byte, 1<<20), 1<<20)
	for sc.Scan() {
		line := strings.TrimSpace(sc.Text())
		if line == "" || strings.HasPrefix(line, "#") {
			continue
		}
		m := kfRe.FindStringSubmatch(line)
		if m == nil {
			continue
		}
		kf := KnownFinding{Kind: m[1], Property: m[2], Obligation: m[3], Text: m[4]}
		if wm := kfWitnessRe.FindStringSubmatch(kf.Text); wm != nil {
			if w, err := strconv.Unquote(wm[1]); err == nil {
				kf.Witness = w
			}
		}
		out = append(out, kf)
	}
	return out
}

func findingFor(kfs []KnownFinding, prop, obligation string) *KnownFinding {
	for i := range kfs {
		k := &kfs[i]
		if k.Kind == "finding" && (k.Property == prop || prop == "all") && k.Obligation == obligation {
			return k
		}
	}
	return nil
}

type Evidence struct {
	PropertyID  string                 `json:"property_id"`
	Tier        string                 `json:"tier"`
	Seed        int                    `json:"seed"`
	Level       string                 `json:"level"`
	Coverage    map[string]interface{} `json:"coverage"`
	Assumptions []string               `json:"assumptions"`
	WallS       float64                `json:"wall_s"`
	Violations  int                    `json:"violations"`
}

func seedFromEnv() int {
	if s := os.Getenv("VERIF_SEED"); s != "" {
		if n, err := strconv.Atoi(s); err == nil {
			return n
		}
	}
	return 0
}

func writeEvidence(ev *Evidence) error {
	dir := filepath.Join(verifDir, "evidence")
	if err := os.MkdirAll(dir, 0o755); err != nil {
		return err
	}
	b, err := json.MarshalIndent(ev, "", " ")
	if err != nil {
		return err
	}
	return os.WriteFile(filepath.Join(dir, ev.PropertyID+".json"), append(b, '\n'), 0o644)
}

type Replay struct {
	Property    string   `json:"property"`
	Obligation  string   `json:"obligation"`
	Kind        string   `json:"kind"`
	Description string   `json:"description"`
	Position    string   `json:"position,omitempty"`
	Status      string   `json:"status"`
	SolverOut   string   `json:"solver_output"`
	Witness     string   `json:"witness,omitempty"`
	WitnessNote string   `json:"witness_note,omitempty"`
	ReplayCmd   []string `json:"replay_cmd,omitempty"`
	ReplayTest  string   `json:"replay_test,omitempty"`
	ReplayPkg   string   `json:"replay_pkg,omitempty"`
	Query       string   `json:"smt_query,omitempty"`
	NoInput     bool     `json:"no_failing_input_found"`
}

func replayPath(prop, obligation string) string {
	return filepath.Join(verifDir, "replays", prop+"-"+sanitizeFile(obligation)+".json")
}

func sanitizeFile(s string) string {
	var b strings.Builder
	for _, r := range s {
		if (r >= 'a' && r <= 'z') || (r >= 'A' && r <= 'Z') || (r >= '0' && r <= '9') || r == '.' || r == '-' || r == '_' {
			b.WriteRune(r)
		} else {
			b.WriteByte('_')
		}
	}
	s = b.String()
	if len(s) > 150 {
		s = s[:150]
	}
	return s
}

func writeReplay(rp *Replay) (string, error) {
	p := replayPath(rp.Property, rp.Obligation)
	if err := os.MkdirAll(filepath.Dir(p), 0o755); err != nil {
		return p, err
	}
	b, _ := json.MarshalIndent(rp, "", " ")
	return p, os.WriteFile(p, append(b, '\n'), 0o644)
}

func uniqSorted(xs []string) []string {
	m := map[string]bool{}
	for _, x := range xs {
		m[x] = true
	}
	out := make([]string, 0, len(m))
	for x := range m {
		out = append(out, x)
	}
	sort.Strings(out)
	return out
}

var _ = fmt.Sprintf
