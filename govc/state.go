package main

import (
	"fmt"
	"go/ast"
	"go/token"
	"go/types"
	"sort"
	"strings"
	"time"

	"golang.org/x/tools/go/packages"
)

type Sort int

const (
	SInt Sort = iota
	SBool
	SStr
	SSL
	SIL
	SRec  // struct or pointer to struct; fields live in env under Rec+"."+field
	SMap  // map; env under Rec+".has" / Rec+".val"
	SBuf  // reference to a byte buffer / string builder; content in env under Rec
	SScan // reference to a bufio.Scanner ghost record
	SNil
	SLL // [][]string of a FindAll*: T = first element (SL), Rec = count term
	SOL // slice of unmodelled elements (structs ...): T = length term only
	SOpaque
)

func (s Sort) smt() string {
	switch s {
	case SInt:
		return "Int"
	case SBool:
		return "Bool"
	case SStr:
		return "Str"
	case SSL:
		return "SL"
	case SIL:
		return "IL"
	}
	return "Int"
}

type Val struct {
	T   string
	S   Sort
	GT  types.Type
	Rec string
	Raw string // raw SMT sort for opaque array-valued entries (map components)
}

// State of one symbolic path.
type State struct {
	env    map[string]Val
	assume []string
	guard  []string        // short-circuit guards (temporary)
	fresh  map[string]bool // records allocated on this path (absent fields read as zero)
	scans  []string        // scanner ghost records created on this path
	dead   bool
}

func (s *State) clone() *State {
	n := &State{env: make(map[string]Val, len(s.env)), fresh: make(map[string]bool, len(s.fresh))}
	for k, v := range s.env {
		n.env[k] = v
	}
	for k, v := range s.fresh {
		n.fresh[k] = v
	}
	n.assume = append([]string(nil), s.assume...)
	n.guard = append([]string(nil), s.guard...)
	n.scans = append([]string(nil), s.scans...)
	return n
}

func (s *State) addAssume(t string) {
	if t == "true" || t == "" {
		return
	}
	if len(s.guard) > 0 {
		t = implies(and(s.guard...), t)
	}
	s.assume = append(s.assume, t)
}

func (s *State) hyps() []string {
	h := append([]string(nil), s.assume...)
	return append(h, s.guard...)
}

type OutcomeKind int

const (
	ONormal OutcomeKind = iota
	OBreak
	OContinue
	OReturn
	OExit  // os.Exit / logger.Fatal
	OPanic // deliberate panic (logger.Panic)
)

type Outcome struct {
	Kind OutcomeKind
	St   *State
}

// An Obligation is one proof goal; it may be reached on several paths (Queries).
type Query struct {
	Decls []string
	Hyps  []string
	Goal  string
	Path  int
}

type Obligation struct {
	Name    string // pkg.Func/kind#ord
	Func    string
	Kind    string
	Tags    []string
	Descr   string
	Pos     string
	Queries []*Query
	// results
	Status  string // discharged | failed
	Solver  string
	Ms      int64
	Detail  string
	Assumed bool
	MustFail bool // canary: expected NOT to be provable
	FailText string
	FailStatus string
	Run      func(ob *Obligation, timeout time.Duration) // non-SMT-path obligations (RegLan, effects, bounded)
	Bounded  bool
	Domain   string
	Cases    int
	Witness  string
	WitnessNote string
	ReplayTest string
	ReplayPkg  string
}

// FnCtx: verification context of one function under contract.
type FnCtx struct {
	w        *World
	pkg      *packages.Package
	name     string // Recv.Name
	qname    string // pkgpath-short.Recv.Name
	decl     *ast.FuncDecl
	lit      *ast.FuncLit
	ftype    *ast.FuncType
	body     *ast.BlockStmt
	sig      *types.Signature
	contract *Contract

	decls      []string
	counter    int
	initial    map[string]Val
	initAssume []string
	obls       map[string]*Obligation
	oblOrder   []string
	loopOrd    map[ast.Stmt]int
	siteOrd    map[ast.Node]int
	siteCount  map[string]int
	names      map[string]types.Object // locals by name (for contract clauses)
	resultKeys []string
	resultVars []*types.Var
	abstracted []string
	unmodelled map[string]bool
	externs    map[string]bool
	pathCount  int
	errors     []string
	scope      *nameScope // active contract name scope (nil: program expressions)
	curLoop    int
	oldEnv     map[string]Val
	oldFresh   map[string]bool
	dry        int
	notes      []string
	nloops     int
	specMode   *SpecFunc
	entryMeasure []string
	regexUsed  map[string]bool
	declSet    map[string]bool
	useCallee  string
	inlineDepth int
	headEnv    map[string]Val
	headFresh  map[string]bool
	loopEntry  map[int]*State
	declSetN   int
	noSafety   int // > 0: inside a helper executed in place whose body calls unmodelled code
}

// nameScope resolves identifiers of a contract clause.
type nameScope struct {
	vals   map[string]Val       // direct bindings (callee params at a call site, results, quantified vars)
	objs   map[string]types.Object
	pkg    *packages.Package
	parent *nameScope
}

func (ns *nameScope) lookupVal(name string) (Val, bool) {
	for s := ns; s != nil; s = s.parent {
		if v, ok := s.vals[name]; ok {
			return v, true
		}
	}
	return Val{}, false
}

func (ns *nameScope) lookupObj(name string) (types.Object, bool) {
	for s := ns; s != nil; s = s.parent {
		if o, ok := s.objs[name]; ok {
			return o, true
		}
	}
	return nil, false
}

func (ns *nameScope) thePkg() *packages.Package {
	for s := ns; s != nil; s = s.parent {
		if s.pkg != nil {
			return s.pkg
		}
	}
	return nil
}

func (fc *FnCtx) errorf(format string, a ...interface{}) {
	m := fmt.Sprintf(format, a...)
	for _, e := range fc.errors {
		if e == m {
			return
		}
	}
	fc.errors = append(fc.errors, m)
}

func (fc *FnCtx) pos(n ast.Node) string {
	p := fc.pkg.Fset.Position(n.Pos())
	return fmt.Sprintf("%s:%d", shortFile(p.Filename), p.Line)
}

func shortFile(f string) string {
	return strings.TrimPrefix(f, "/repo/")
}

func (fc *FnCtx) freshName(hint string) string {
	fc.counter++
	h := sanitize(hint)
	return fmt.Sprintf("%s_%d", h, fc.counter)
}

func sanitize(s string) string {
	var b strings.Builder
	for _, r := range s {
		if (r >= 'a' && r <= 'z') || (r >= 'A' && r <= 'Z') || (r >= '0' && r <= '9') || r == '_' {
			b.WriteRune(r)
		} else {
			b.WriteByte('_')
		}
	}
	if b.Len() == 0 {
		return "v"
	}
	return b.String()
}

// declare a fresh SMT constant of the given sort; returns its name.
func (fc *FnCtx) declare(hint string, s Sort) string {
	n := fc.freshName(hint)
	fc.decls = append(fc.decls, fmt.Sprintf("(declare-const %s %s)", n, s.smt()))
	return n
}

func wfOf(t string, s Sort, gt types.Type) string {
	switch s {
	case SStr:
		return "(wfstr " + t + ")"
	case SSL:
		return "(wfsl " + t + ")"
	case SIL:
		return "(wfil " + t + ")"
	case SInt:
		if gt != nil {
			if lo, hi, ok := intRange(gt); ok {
				return fmt.Sprintf("(and (<= %s %s) (<= %s %s))", lo, t, t, hi)
			}
		}
	}
	return "true"
}

func intRange(t types.Type) (string, string, bool) {
	b, ok := t.Underlying().(*types.Basic)
	if !ok {
		return "", "", false
	}
	switch b.Kind() {
	case types.Uint8:
		return "0", "255", true
	case types.Int8:
		return "(- 128)", "127", true
	case types.Uint16:
		return "0", "65535", true
	case types.Int16:
		return "(- 32768)", "32767", true
	case types.Int32:
		return "(- 2147483648)", "2147483647", true
	case types.Uint32:
		return "0", "4294967295", true
	case types.Int, types.Int64:
		return "(- 9223372036854775808)", "9223372036854775807", true
	case types.Uint, types.Uint64, types.Uintptr:
		return "0", "18446744073709551615", true
	}
	return "", "", false
}

// fresh symbolic value on a path (havoc): declared + wf assumed on that path.
func (fc *FnCtx) freshVal(st *State, hint string, s Sort, gt types.Type) Val {
	switch s {
	case SInt, SBool, SStr, SSL, SIL:
		n := fc.declare(hint, s)
		v := Val{T: n, S: s, GT: gt}
		if st != nil {
			st.assume = append(st.assume, nonTrue(wfOf(n, s, gt))...)
		}
		return v
	case SRec:
		return Val{S: SRec, GT: gt, Rec: fc.freshName("rec_" + hint)}
	case SMap:
		return Val{S: SMap, GT: gt, Rec: fc.freshName("map_" + hint)}
	case SBuf:
		return Val{S: SBuf, GT: gt, Rec: fc.freshName("buf_" + hint)}
	case SScan:
		return Val{S: SScan, GT: gt, Rec: fc.freshName("scan_" + hint)}
	case SOL:
		n := fc.declare(hint+"_len", SInt)
		if st != nil {
			st.assume = append(st.assume, "(>= "+n+" 0)")
		}
		return Val{S: SOL, GT: gt, T: n}
	}
	return Val{S: s, GT: gt, T: "0"}
}

func nonTrue(t string) []string {
	if t == "true" || t == "" {
		return nil
	}
	return []string{t}
}

// initialVal: the symbolic value a location has at function entry (lazily created,
// path independent; its wf facts are part of every query of the function).
func (fc *FnCtx) initialVal(key string, s Sort, gt types.Type) Val {
	if v, ok := fc.initial[key]; ok {
		return v
	}
	var v Val
	switch s {
	case SInt, SBool, SStr, SSL, SIL:
		n := fc.declare("in_"+key, s)
		v = Val{T: n, S: s, GT: gt}
		fc.initAssume = append(fc.initAssume, nonTrue(wfOf(n, s, gt))...)
	case SRec, SMap, SBuf, SScan:
		v = Val{S: s, GT: gt, Rec: "init_" + sanitize(key)}
	case SOL:
		n := fc.declare("in_"+key+"_len", SInt)
		fc.initAssume = append(fc.initAssume, "(>= "+n+" 0)")
		v = Val{S: SOL, GT: gt, T: n}
	default:
		v = Val{S: s, GT: gt, T: "0"}
	}
	fc.initial[key] = v
	return v
}

// read a location
func (fc *FnCtx) readKey(st *State, key string, gt types.Type) Val {
	if v, ok := st.env[key]; ok {
		return v
	}
	s := sortOf(gt)
	// field of a record allocated on this path: zero value
	if i := strings.LastIndex(key, "."); i > 0 && st.fresh[key[:i]] {
		v := zeroVal(fc, st, s, gt)
		st.env[key] = v
		return v
	}
	// fields of a record that an unmodelled callee may have written: unknown, per havoc
	if i := strings.LastIndex(key, "."); i > 0 {
		if hv, ok := st.env[key[:i]+".$havoc"]; ok {
			v := fc.initialVal(key+"@"+hv.T, s, gt)
			st.env[key] = v
			return v
		}
	}
	v := fc.initialVal(key, s, gt)
	return v
}

func zeroVal(fc *FnCtx, st *State, s Sort, gt types.Type) Val {
	switch s {
	case SInt:
		return Val{T: "0", S: SInt, GT: gt}
	case SBool:
		return Val{T: "false", S: SBool, GT: gt}
	case SStr:
		return Val{T: "emptystr", S: SStr, GT: gt}
	case SSL:
		return Val{T: "emptysl", S: SSL, GT: gt}
	case SIL:
		return Val{T: "emptyil", S: SIL, GT: gt}
	case SRec:
		v := fc.freshVal(st, "zero", SRec, gt)
		st.fresh[v.Rec] = true
		// the zero value of a pointer or interface is nil (of a struct it is not)
		if gt != nil {
			switch gt.Underlying().(type) {
			case *types.Pointer, *types.Interface:
				st.env[v.Rec+".$nil"] = boolVal("true")
			}
		}
		return v
	case SBuf:
		v := fc.freshVal(st, "zero", SBuf, gt)
		st.env[v.Rec] = Val{T: "emptystr", S: SStr}
		return v
	case SMap:
		v := fc.freshVal(st, "zero", SMap, gt)
		st.fresh[v.Rec] = true
		return v
	}
	return Val{S: s, GT: gt, T: "0"}
}

func objKey(o types.Object) string {
	if o.Pkg() != nil && o.Parent() == o.Pkg().Scope() {
		return pkgShort(o.Pkg().Path()) + "." + o.Name()
	}
	return fmt.Sprintf("%s@%d", o.Name(), int(o.Pos()))
}

func pkgShort(p string) string {
	p = strings.TrimPrefix(p, "github.com/coreruleset/crs-toolchain/v2/")
	if p == "github.com/coreruleset/crs-toolchain/v2" {
		return "main"
	}
	return p
}

func isNamed(t types.Type, pkg, name string) bool {
	if p, ok := t.(*types.Pointer); ok {
		t = p.Elem()
	}
	n, ok := t.(*types.Named)
	if !ok {
		return false
	}
	o := n.Obj()
	return o.Pkg() != nil && o.Pkg().Path() == pkg && o.Name() == name
}

func isBufType(t types.Type) bool {
	return isNamed(t, "strings", "Builder") || isNamed(t, "bytes", "Buffer") || isNamed(t, "bufio", "Writer")
}

func isErrorType(t types.Type) bool {
	n, ok := t.(*types.Named)
	return ok && n.Obj().Pkg() == nil && n.Obj().Name() == "error"
}

func sortOf(t types.Type) Sort {
	if t == nil {
		return SOpaque
	}
	if isBufType(t) {
		return SBuf
	}
	if isNamed(t, "bufio", "Scanner") {
		return SScan
	}
	if isErrorType(t) {
		return SInt
	}
	switch u := t.Underlying().(type) {
	case *types.Basic:
		switch {
		case u.Info()&types.IsInteger != 0:
			return SInt
		case u.Info()&types.IsBoolean != 0:
			return SBool
		case u.Info()&types.IsString != 0:
			return SStr
		case u.Kind() == types.UntypedNil:
			return SNil
		}
		return SOpaque
	case *types.Slice:
		switch sortOf(u.Elem()) {
		case SInt:
			if b, ok := u.Elem().Underlying().(*types.Basic); ok && (b.Kind() == types.Uint8) {
				return SStr
			}
			return SIL
		case SStr:
			return SSL
		case SSL:
			return SLL
		case SRec:
			return SOL
		}
		return SOpaque
	case *types.Pointer:
		if _, ok := u.Elem().Underlying().(*types.Struct); ok {
			return SRec
		}
		return SOpaque
	case *types.Struct:
		return SRec
	case *types.Map:
		return SMap
	case *types.Interface:
		return SRec
	}
	return SOpaque
}

// ---- obligations ---------------------------------------------------------------

func (fc *FnCtx) siteOrdinal(kind string, n ast.Node) int {
	if o, ok := fc.siteOrd[n]; ok {
		return o
	}
	o := fc.siteCount[kind]
	fc.siteCount[kind]++
	fc.siteOrd[n] = o
	return o
}

func (fc *FnCtx) oblige(st *State, name, kind string, tags []string, goal, descr string, n ast.Node) {
	if fc.dry > 0 || fc.specMode != nil {
		st.addAssume(goal)
		return
	}
	full := fc.qname + "/" + name
	ob := fc.obls[full]
	if ob == nil {
		ob = &Obligation{Name: full, Func: fc.qname, Kind: kind, Tags: tags, Descr: descr}
		if n != nil {
			ob.Pos = fc.pos(n)
		}
		fc.obls[full] = ob
		fc.oblOrder = append(fc.oblOrder, full)
	}
	q := &Query{Hyps: st.hyps(), Goal: goal, Path: fc.pathCount}
	ob.Queries = append(ob.Queries, q)
	// after checking, the goal may be assumed on the rest of this path - except for
	// end-of-path obligations (postconditions, invariant preservation, measures): assuming
	// them would let one failing clause mask its siblings, which may belong to another property
	switch kind {
	case "post", "inv-keep", "decreases", "loop-body", "scan-complete":
		return
	}
	st.addAssume(goal)
}

func sortedKeys(m map[string]bool) []string {
	var ks []string
	for k := range m {
		ks = append(ks, k)
	}
	sort.Strings(ks)
	return ks
}

var _ = token.NoPos
