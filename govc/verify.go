package main

import (
	"fmt"
	"go/ast"
	"go/types"
	"strings"
	"time"
)

// verify runs the symbolic execution of one function under contract and collects
// its obligations (not yet solved).
func (fc *FnCtx) verify() {
	defer func() {
		if r := recover(); r != nil {
			fc.errorf("internal error while generating conditions: %v", r)
		}
	}()
	st := &State{env: map[string]Val{}, fresh: map[string]bool{}}
	// parameters and receiver get their entry values now
	if r := fc.sig.Recv(); r != nil {
		fc.readKey(st, objKey(r), r.Type())
	}
	for i := 0; i < fc.sig.Params().Len(); i++ {
		p := fc.sig.Params().At(i)
		fc.readKey(st, objKey(p), p.Type())
	}
	// requires
	sc := fc.fnScope(st, fc.body.Lbrace+1)
	for _, cl := range fc.contract.clauses("requires") {
		fc.scope = sc
		fc.oldEnv, fc.oldFresh = map[string]Val{}, map[string]bool{}
		t := fc.tr(st, cl.Expr)
		fc.scope = nil
		st.addAssume(t.T)
	}
	fc.applyUses(st, "use-entry", -1, fc.body.Lbrace+1, nil)
	// measure at entry (for recursive ghost lemmas)
	for _, cl := range fc.contract.clauses("fdecreases") {
		fc.scope = sc
		fc.entryMeasure = append(fc.entryMeasure, fc.tr(st, cl.Expr).T)
		fc.scope = nil
	}
	// vacuity canary: the precondition must be satisfiable
	can := &Obligation{Name: fc.qname + "/canary", Func: fc.qname, Kind: "canary", Tags: fc.contract.Tags, Descr: "vacuity canary: `false` must NOT be provable from the preconditions", MustFail: true}
	can.Queries = []*Query{{Hyps: st.hyps(), Goal: "false"}}
	fc.obls[can.Name] = can
	fc.oblOrder = append(fc.oblOrder, can.Name)

	for _, o := range fc.execBlock(st, fc.body.List) {
		if o.Kind == ONormal {
			fc.checkPost(o.St, nil)
		}
	}
	// termination: every loop that is not a range over a finite sequence needs a measure
	if tags := fc.contract.Opts["termination"]; tags != "" {
		for s, ord := range fc.loopOrd {
			needs := false
			switch l := s.(type) {
			case *ast.ForStmt:
				needs = true
				_ = l
			case *ast.RangeStmt:
				needs = false
			}
			if needs && len(fc.contract.loopClauses("decreases", ord)) == 0 {
				ob := &Obligation{Name: fmt.Sprintf("%s/decreases-declared#%d", fc.qname, ord), Func: fc.qname, Kind: "decreases-declared", Tags: strings.Fields(tags),
					Descr: "loop has a termination measure", Pos: fc.pos(s)}
				ob.Queries = []*Query{{Goal: "false"}}
				fc.obls[ob.Name] = ob
				fc.oblOrder = append(fc.oblOrder, ob.Name)
			}
		}
	}
}

func (fc *FnCtx) queryText(q *Query) string { return fc.queryTextMode(q, false) }

// queryTextMode: light=true drops the well-formedness hypotheses and the axioms of
// scat/ssub/slsub/slcat (they stay uninterpreted): sound, because removing hypotheses
// can only make a validity proof harder; many string-algebra goals need congruence only.
func (fc *FnCtx) queryTextMode(q *Query, light bool) string {
	var body strings.Builder
	hyps := coneOfInfluence(append(append([]string{}, fc.initAssume...), q.Hyps...), q.Goal, fc.declNames())
	for _, h := range hyps {
		if light && (strings.HasPrefix(h, "(wfstr ") || strings.HasPrefix(h, "(wfsl ") || strings.HasPrefix(h, "(wfil ")) {
			continue
		}
		body.WriteString("(assert " + h + ")\n")
	}
	body.WriteString("(assert (not " + q.Goal + "))\n")
	bs := body.String()
	var out strings.Builder
	seq := fc.contract != nil && fc.contract.Opts["encoding"] == "seq"
	if seq {
		out.WriteString(preambleSeq)
	} else if light {
		out.WriteString(preambleLight())
	} else {
		out.WriteString(preambleArray)
	}
	spec := fc.w.specText(bs)
	if light {
		spec = dropWfAxioms(spec)
	}
	out.WriteString(litDefs(bs+spec, seq))
	if !seq && strings.Contains(bs+spec, "(itoa ") {
		out.WriteString(itoaDecl)
	}
	if strings.Contains(bs+spec, "(hexs ") {
		out.WriteString(hexDecl)
	}
	if strings.Contains(bs+spec, "(reobj_") {
		out.WriteString("(declare-fun reobj_span (Int Str) Bool)\n(declare-fun reobj_any (Int Str) Bool)\n")
	}
	if strings.Contains(bs+spec, "(rematchdyn ") {
		out.WriteString("(declare-fun rematchdyn (Str Str) Bool)\n")
	}
	if strings.Contains(bs+spec, "(fsread ") {
		out.WriteString("(declare-fun fsread (Str Int) Str)\n")
	}
	out.WriteString(fc.w.regexUFDecls(bs + spec))
	out.WriteString(spec)
	full := bs + spec
	for _, d := range fc.decls {
		// (declare-const name sort)
		f := strings.Fields(d)
		if len(f) >= 2 && containsSym(full, f[1]) {
			out.WriteString(d + "\n")
		}
	}
	out.WriteString(bs)
	out.WriteString("(check-sat)\n")
	return out.String()
}

// solveObligation decides one obligation (all its path queries).
func (fc *FnCtx) solveObligation(ob *Obligation, timeout time.Duration) {
	ob.Status = "discharged"
	seen := map[string]bool{}
	for _, q := range ob.Queries {
		text := fc.queryText(q)
		if seen[text] {
			continue
		}
		seen[text] = true
		to := timeout
		if ob.MustFail && to > 1500*time.Millisecond {
			to = 1500 * time.Millisecond
		}
		var r SolverResult
		if fc.contract != nil && fc.contract.Opts["encoding"] == "seq" {
			r = solve(text, seqSolvers, to)
		} else if ob.MustFail {
			r = solve(text, arraySolvers, to)
		} else {
			// stage 1: one fast solver on the full text (most obligations discharge in
			// milliseconds); stage 2: race all solvers on both renderings
			r = solve(text, arraySolvers[1:2], 1200*time.Millisecond)
			if r.Status != "unsat" {
				r = solve2(text, fc.queryTextMode(q, true), arraySolvers, to)
			}
		}
		if r.Ms > ob.Ms {
			ob.Ms = r.Ms
		}
		if r.Status == "unsat" {
			if ob.Solver == "" {
				ob.Solver = r.Solver
			} else if !strings.Contains(ob.Solver, r.Solver) {
				ob.Solver += "," + r.Solver
			}
			continue
		}
		ob.Status = "failed"
		ob.Detail = fmt.Sprintf("path %d: %s (%s, %d ms)", q.Path, r.Status, r.Solver, r.Ms)
		if r.Status == "error" || r.Status == "sat" {
			ob.Detail += "\n" + strings.TrimSpace(r.Output)
		}
		ob.FailText = text
		ob.FailStatus = r.Status
		break
	}
	if ob.MustFail {
		// canary: provable `false` means the preconditions are contradictory
		if ob.Status == "discharged" {
			ob.Status = "failed"
			ob.Detail = "VACUOUS: `false` is provable from the preconditions / assumed contracts"
		} else {
			ob.Status = "discharged"
			ob.Detail = "canary not provable (as required): " + ob.Detail
		}
	}
}

var _ = types.Typ

func (fc *FnCtx) declNames() map[string]bool {
	if fc.declSet != nil && fc.declSetN == len(fc.decls) {
		return fc.declSet
	}
	m := map[string]bool{}
	for _, d := range fc.decls {
		f := strings.Fields(d)
		if len(f) >= 2 {
			m[f[1]] = true
		}
	}
	fc.declSet, fc.declSetN = m, len(fc.decls)
	return m
}

// symbolsOf: declared constants occurring in a term.
func symbolsOf(t string, decls map[string]bool) []string {
	var out []string
	i := 0
	for i < len(t) {
		if !isSymChar(t[i]) {
			i++
			continue
		}
		j := i
		for j < len(t) && isSymChar(t[j]) {
			j++
		}
		if w := t[i:j]; decls[w] {
			out = append(out, w)
		}
		i = j
	}
	return out
}

// coneOfInfluence keeps the hypotheses that (transitively) share a declared constant
// with the goal; hypotheses without any declared constant are kept. Dropping
// hypotheses is always sound for a validity proof.
func coneOfInfluence(hyps []string, goal string, decls map[string]bool) []string {
	rel := map[string]bool{}
	for _, s := range symbolsOf(goal, decls) {
		rel[s] = true
	}
	syms := make([][]string, len(hyps))
	for i, h := range hyps {
		syms[i] = symbolsOf(h, decls)
	}
	keep := make([]bool, len(hyps))
	changed := true
	for changed {
		changed = false
		for i := range hyps {
			if keep[i] {
				continue
			}
			// only the (quantified) well-formedness facts are pruned by relevance; path
			// conditions are always kept (an infeasible path must stay refutable)
			h := hyps[i]
			hit := len(syms[i]) == 0 || !(strings.HasPrefix(h, "(wfstr ") || strings.HasPrefix(h, "(wfsl ") || strings.HasPrefix(h, "(wfil "))
			for _, s := range syms[i] {
				if rel[s] {
					hit = true
					break
				}
			}
			if hit {
				keep[i] = true
				changed = true
				for _, s := range syms[i] {
					rel[s] = true
				}
			}
		}
	}
	var out []string
	for i, h := range hyps {
		if keep[i] {
			out = append(out, h)
		}
	}
	return out
}

func preambleLight() string {
	var out []string
	skip := false
	for _, l := range strings.Split(preambleArray, "\n") {
		if strings.HasPrefix(l, "(assert (forall ((a Str) (b Str))") || strings.HasPrefix(l, "(assert (forall ((s Str) (lo Int)") ||
			strings.HasPrefix(l, "(assert (forall ((s SL) (lo Int)") || strings.HasPrefix(l, "(assert (forall ((a SL) (b SL))") {
			skip = true
		}
		if skip {
			if strings.HasPrefix(l, "  :pattern ((scat a b)))))") || strings.HasPrefix(l, "  :pattern ((ssub s lo hi)))))") ||
				strings.HasPrefix(l, "  :pattern ((slsub s lo hi)))))") || strings.HasPrefix(l, "  :pattern ((slcat a b)))))") {
				skip = false
			}
			continue
		}
		out = append(out, l)
	}
	return strings.Join(out, "\n")
}

func dropWfAxioms(spec string) string {
	var out []string
	for _, l := range strings.Split(spec, "\n") {
		if strings.HasPrefix(l, "(assert (forall") && (strings.Contains(l, "(wfstr (") || strings.Contains(l, "(wfsl (")) && !strings.Contains(l, "(= (") {
			continue
		}
		out = append(out, l)
	}
	return strings.Join(out, "\n")
}
