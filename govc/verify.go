package main

import (
	"fmt"
	"go/ast"
	"go/types"
	"strings"
	"time"
)

// verify runs the symbolic execution of one function under contract and collects
// its obligations (not yet solved).
func (fc *FnCtx) verify() {
	defer func() {
		if r := recover(); r != nil {
			fc.errorf("internal error while generating conditions: %v", r)
		}
	}()
	st := &State{env: map[string]Val{}, fresh: map[string]bool{}}
	// parameters and receiver get their entry values now
	if r := fc.sig.Recv(); r != nil {
		fc.readKey(st, objKey(r), r.Type())
	}
	for i := 0; i < fc.sig.Params().Len(); i++ {
		p := fc.sig.Params().At(i)
		fc.readKey(st, objKey(p), p.Type())
	}
	// requires
	sc := fc.fnScope(st, fc.body.Lbrace+1)
	for _, cl := range fc.contract.clauses("requires") {
		fc.scope = sc
		fc.oldEnv, fc.oldFresh = map[string]Val{}, map[string]bool{}
		t := fc.tr(st, cl.Expr)
		fc.scope = nil
		st.addAssume(t.T)
	}
	fc.applyUses(st, "use-entry", -1, fc.body.Lbrace+1, nil)
	// measure at entry (for recursive ghost lemmas)
	for _, cl := range fc.contract.clauses("fdecreases") {
		fc.scope = sc
		fc.entryMeasure = append(fc.entryMeasure, fc.tr(st, cl.Expr).T)
		fc.scope = nil
	}
	// vacuity canary: the precondition must be satisfiable
	can := &Obligation{Name: fc.qname + "/canary", Func: fc.qname, Kind: "canary", Tags: fc.contract.Tags, Descr: "vacuity canary: `false` must NOT be provable from the preconditions", MustFail: true}
	can.Queries = []*Query{{Hyps: st.hyps(), Goal: "false"}}
	fc.obls[can.Name] = can
	fc.oblOrder = append(fc.oblOrder, can.Name)

	for _, o := range fc.execBlock(st, fc.body.List) {
		if o.Kind == ONormal {
			fc.checkPost(o.St, nil)
		}
	}
	// termination: every loop that is not a range over a finite sequence needs a measure
	if tags := fc.contract.Opts["termination"]; tags != "" {
		for s, ord := range fc.loopOrd {
			needs := false
			switch l := s.(type) {
			case *ast.ForStmt:
				needs = true
				_ = l
			case *ast.RangeStmt:
				needs = false
			}
			if needs && len(fc.contract.loopClauses("decreases", ord)) == 0 {
				ob := &Obligation{Name: fmt.Sprintf("%s/decreases-declared#%d", fc.qname, ord), Func: fc.qname, Kind: "decreases-declared", Tags: strings.Fields(tags),
					Descr: "loop has a termination measure", Pos: fc.pos(s)}
				ob.Queries = []*Query{{Goal: "false"}}
				fc.obls[ob.Name] = ob
				fc.oblOrder = append(fc.oblOrder, ob.Name)
			}
		}
	}
}

func (fc *FnCtx) queryText(q *Query) string {
	var body strings.Builder
	for _, h := range fc.initAssume {
		body.WriteString("(assert " + h + ")\n")
	}
	for _, h := range q.Hyps {
		body.WriteString("(assert " + h + ")\n")
	}
	body.WriteString("(assert (not " + q.Goal + "))\n")
	bs := body.String()
	var out strings.Builder
	out.WriteString(preambleArray)
	if strings.Contains(bs, "(itoa ") {
		out.WriteString(itoaDecl)
	}
	if strings.Contains(bs, "(hexs ") {
		out.WriteString(hexDecl)
	}
	spec := fc.w.specText(bs)
	out.WriteString(spec)
	full := bs + spec
	for _, d := range fc.decls {
		// (declare-const name sort)
		f := strings.Fields(d)
		if len(f) >= 2 && containsSym(full, f[1]) {
			out.WriteString(d + "\n")
		}
	}
	out.WriteString(bs)
	out.WriteString("(check-sat)\n")
	return out.String()
}

// solveObligation decides one obligation (all its path queries).
func (fc *FnCtx) solveObligation(ob *Obligation, timeout time.Duration) {
	ob.Status = "discharged"
	seen := map[string]bool{}
	for _, q := range ob.Queries {
		text := fc.queryText(q)
		if seen[text] {
			continue
		}
		seen[text] = true
		to := timeout
		if ob.MustFail && to > 3*time.Second {
			to = 3 * time.Second
		}
		r := solve(text, arraySolvers, to)
		if r.Ms > ob.Ms {
			ob.Ms = r.Ms
		}
		if r.Status == "unsat" {
			if ob.Solver == "" {
				ob.Solver = r.Solver
			} else if !strings.Contains(ob.Solver, r.Solver) {
				ob.Solver += "," + r.Solver
			}
			continue
		}
		ob.Status = "failed"
		ob.Detail = fmt.Sprintf("path %d: %s (%s, %d ms)", q.Path, r.Status, r.Solver, r.Ms)
		if r.Status == "error" || r.Status == "sat" {
			ob.Detail += "\n" + strings.TrimSpace(r.Output)
		}
		ob.FailText = text
		ob.FailStatus = r.Status
		break
	}
	if ob.MustFail {
		// canary: provable `false` means the preconditions are contradictory
		if ob.Status == "discharged" {
			ob.Status = "failed"
			ob.Detail = "VACUOUS: `false` is provable from the preconditions / assumed contracts"
		} else {
			ob.Status = "discharged"
			ob.Detail = "canary not provable (as required): " + ob.Detail
		}
	}
}

var _ = types.Typ
