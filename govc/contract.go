package main

// Contract files: /repo/<pkg>/zz_contracts_verif.go (build tag verif).
// Contracts are //@ comment blocks; spec functions are ordinary Go functions in
// the same files.  See DESIGN.md 2.1-2.3 for the language.

import (
	"fmt"
	"go/ast"
	"go/parser"
	"go/token"
	"regexp"
	"strconv"
	"strings"
)

type Clause struct {
	Kind  string // requires ensures invariant decreases assert modifies reads
	Loop  int    // loop ordinal for invariant/decreases
	Tags  []string
	Label string
	Text  string
	Expr  ast.Expr
	File  string
	Line  int
	Optional bool // `invariant?`: dropped when it names a variable the function does not have
}

type Contract struct {
	Pkg      string // package path
	Func     string // Recv.Name, Name, Outer#k (closure), or extern key
	Extern   bool
	Lemma    bool
	Params   []string // extern only: names for parameters (receiver first if method)
	Results  []string
	Clauses  []*Clause
	Tags     []string // default property tags for every obligation of this function
	Safety   []string // tags for zero-annotation safety obligations (default Tags)
	Opts     map[string]string
	File     string
	Line     int
	Attached bool
}

type RegLemma struct {
	Pkg   string
	Name  string
	Tags  []string
	Text  string // e.g. disjoint(regex.IncludeRegex, regex.CommentRegex)
	File  string
	Line  int
	Extra map[string]string
}

type ContractSet struct {
	Contracts []*Contract
	RegLemmas []*RegLemma
	Directives []*Directive // other top-level //@ directives (effects, bounded ...)
	byKey     map[string]*Contract
}

type Directive struct {
	Pkg  string
	Kind string
	Args string
	Tags []string
	File string
	Line int
}

func (cs *ContractSet) lookup(pkg, fn string) *Contract {
	return cs.byKey[pkg+"::"+fn]
}

var tagRe = regexp.MustCompile(`^([a-z]+)(?:\[([^\]]*)\])?$`)

// parseContractComments extracts //@ blocks from one file.
func parseContractComments(cs *ContractSet, fset *token.FileSet, pkgPath string, f *ast.File) error {
	fname := fset.Position(f.Pos()).Filename
	var cur *Contract
	var lastClause *Clause
	flushClause := func() error {
		if lastClause != nil && lastClause.Expr == nil && lastClause.Kind != "modifies" && lastClause.Kind != "reads" && lastClause.Kind != "rtc" {
			e, err := parser.ParseExpr(lastClause.Text)
			if err != nil {
				return fmt.Errorf("%s:%d: cannot parse clause %q: %v", lastClause.File, lastClause.Line, lastClause.Text, err)
			}
			lastClause.Expr = e
		}
		lastClause = nil
		return nil
	}
	for _, cg := range f.Comments {
		for _, c := range cg.List {
			// gofmt rewrites "//@" in doc comments to "// @": accept both spellings
			raw := c.Text
			if strings.HasPrefix(raw, "// @") {
				raw = "//@" + raw[4:]
			}
			if !strings.HasPrefix(raw, "//@") {
				continue
			}
			line := fset.Position(c.Pos()).Line
			txt := strings.TrimSpace(strings.TrimPrefix(raw, "//@"))
			if txt == "" {
				continue
			}
			if strings.HasPrefix(txt, "|") { // continuation
				if lastClause == nil {
					return fmt.Errorf("%s:%d: continuation without clause", fname, line)
				}
				lastClause.Text += " " + strings.TrimSpace(txt[1:])
				continue
			}
			if err := flushClause(); err != nil {
				return err
			}
			fields := strings.Fields(txt)
			head := fields[0]
			rest := strings.TrimSpace(strings.TrimPrefix(txt, head))
			m := tagRe.FindStringSubmatch(head)
			var ctags []string
			kw := head
			if m != nil {
				kw = m[1]
				if m[2] != "" {
					for _, t := range strings.Split(m[2], ",") {
						ctags = append(ctags, strings.TrimSpace(t))
					}
				}
			}
			switch kw {
			case "contract", "extern", "lemma":
				cur = &Contract{Pkg: pkgPath, Func: fields[1], Extern: kw == "extern", Lemma: kw == "lemma", File: fname, Line: line, Opts: map[string]string{}}
				if cs.byKey[pkgPath+"::"+cur.Func] != nil {
					return fmt.Errorf("%s:%d: duplicate contract for %s", fname, line, cur.Func)
				}
				cs.Contracts = append(cs.Contracts, cur)
				cs.byKey[pkgPath+"::"+cur.Func] = cur
			case "end":
				cur = nil
			case "reglemma":
				// reglemma[C03] name: text
				i := strings.Index(rest, ":")
				if i < 0 {
					return fmt.Errorf("%s:%d: reglemma needs 'name: text'", fname, line)
				}
				cs.RegLemmas = append(cs.RegLemmas, &RegLemma{Pkg: pkgPath, Name: strings.TrimSpace(rest[:i]), Tags: ctags, Text: strings.TrimSpace(rest[i+1:]), File: fname, Line: line})
				cur = nil
			case "directive":
				// directive[C15] kind args...
				if len(fields) < 2 {
					return fmt.Errorf("%s:%d: directive needs kind", fname, line)
				}
				args := strings.TrimSpace(strings.TrimPrefix(rest, fields[1]))
				cs.Directives = append(cs.Directives, &Directive{Pkg: pkgPath, Kind: fields[1], Args: args, Tags: ctags, File: fname, Line: line})
				cur = nil
			default:
				if cur == nil {
					return fmt.Errorf("%s:%d: clause %q outside contract", fname, line, kw)
				}
				switch kw {
				case "results":
					cur.Results = fields[1:]
				case "params":
					cur.Params = fields[1:]
				case "tags":
					cur.Tags = fields[1:]
				case "safety":
					cur.Safety = fields[1:]
				case "opt":
					if len(fields) >= 3 {
						cur.Opts[fields[1]] = strings.Join(fields[2:], " ")
					} else if len(fields) == 2 {
						cur.Opts[fields[1]] = "true"
					}
				case "use":
					// use entry|exit|loop N  LemmaName(args)
					where := fields[1]
					r := strings.TrimSpace(strings.TrimPrefix(rest, where))
					loop := -1
					callee := ""
					if where == "call" {
						callee = fields[2]
						r = strings.TrimSpace(strings.TrimPrefix(r, fields[2]))
					}
					if where == "loop" {
						n, err := strconv.Atoi(fields[2])
						if err != nil {
							return fmt.Errorf("%s:%d: bad loop ordinal in use", fname, line)
						}
						loop = n
						r = strings.TrimSpace(strings.TrimPrefix(r, fields[2]))
					}
					cl := &Clause{Kind: "use-" + where, Tags: ctags, Text: r, File: fname, Line: line, Loop: loop, Label: callee}
					cur.Clauses = append(cur.Clauses, cl)
					lastClause = cl
				case "rtc":
					// options of the executable-contract harness (rtc.go): off <why> | recv <expr> |
					// arg NAME = <expr> | tokens "a" "b" | max=N | import "path"
					cur.Clauses = append(cur.Clauses, &Clause{Kind: "rtc", Text: rest, File: fname, Line: line, Loop: -1})
				case "decreases":
					cl := &Clause{Kind: "fdecreases", Tags: ctags, Text: rest, File: fname, Line: line, Loop: -1}
					cur.Clauses = append(cur.Clauses, cl)
					lastClause = cl
				case "requires", "ensures", "checks", "assert", "modifies", "reads", "assume":
					cl := &Clause{Kind: kw, Tags: ctags, Text: rest, File: fname, Line: line, Loop: -1}
					cl.Label, cl.Text = splitLabel(cl.Text)
					cur.Clauses = append(cur.Clauses, cl)
					lastClause = cl
				case "loop":
					// loop N invariant|decreases expr
					if len(fields) < 4 {
						return fmt.Errorf("%s:%d: loop clause needs 'loop N kind expr'", fname, line)
					}
					n, err := strconv.Atoi(fields[1])
					if err != nil {
						return fmt.Errorf("%s:%d: bad loop ordinal", fname, line)
					}
					kind := fields[2]
					rawKind := kind
					optional := false
					if strings.HasSuffix(kind, "?") {
						optional = true
						kind = strings.TrimSuffix(kind, "?")
					}
					if mm := tagRe.FindStringSubmatch(kind); mm != nil {
						kind = mm[1]
						if mm[2] != "" {
							for _, t := range strings.Split(mm[2], ",") {
								ctags = append(ctags, strings.TrimSpace(t))
							}
						}
					}
					if kind != "invariant" && kind != "decreases" && kind != "body" && kind != "leave" {
						return fmt.Errorf("%s:%d: bad loop clause kind %s", fname, line, kind)
					}
					r := strings.TrimSpace(rest)
					r = strings.TrimSpace(strings.TrimPrefix(r, fields[1]))
					r = strings.TrimSpace(strings.TrimPrefix(r, rawKind))
					cl := &Clause{Kind: kind, Loop: n, Tags: ctags, Text: r, File: fname, Line: line, Optional: optional}
					cl.Label, cl.Text = splitLabel(cl.Text)
					cur.Clauses = append(cur.Clauses, cl)
					lastClause = cl
				default:
					return fmt.Errorf("%s:%d: unknown clause kind %q", fname, line, kw)
				}
			}
		}
	}
	return flushClause()
}

// splitLabel: an optional leading "name:" label (identifier chars and -) on a clause.
var labelRe = regexp.MustCompile(`^([A-Za-z][A-Za-z0-9_-]*):\s+(.*)$`)

func splitLabel(s string) (string, string) {
	if m := labelRe.FindStringSubmatch(s); m != nil {
		return m[1], m[2]
	}
	return "", s
}

func (c *Contract) clauses(kind string) []*Clause {
	var out []*Clause
	for _, cl := range c.Clauses {
		if cl.Kind == kind {
			out = append(out, cl)
		}
	}
	return out
}

func (c *Contract) loopClauses(kind string, loop int) []*Clause {
	var out []*Clause
	for _, cl := range c.Clauses {
		if cl.Kind == kind && cl.Loop == loop {
			out = append(out, cl)
		}
	}
	return out
}

func (c *Contract) tagsFor(cl *Clause) []string {
	if cl != nil && len(cl.Tags) > 0 {
		return cl.Tags
	}
	return c.Tags
}

func (c *Contract) safetyTags() []string {
	if len(c.Safety) > 0 {
		return c.Safety
	}
	return c.Tags
}
