package main

// Axiom probes (DESIGN 2.6): the SMT universe also contains values no Go program can
// build - strings of negative length, strings with bytes outside [0,len), lists whose
// tail is not empty.  A quantified axiom that is only true of well-formed values but is
// asserted for ALL values makes the whole theory inconsistent, and an inconsistent
// theory "proves" every obligation (this happened three times, DESIGN App. C).
//
// For every function symbol that comes with an axiom (scat, ssub, slsub, slcat, itoa,
// hexs, every Spec*/Opaque* function of the contract files, every per-literal regex
// function) a ground probe applies the symbol to a grid of concrete well-formed AND
// ill-formed arguments and reads the result back at concrete indices; the conjunction
// must NOT be refutable.  `unsat` from any solver is reported as a vacuity failure.

import (
	"fmt"
	"os"
	"strings"
	"time"
)

type axiomProbe struct {
	name string
	text string
}

var probeStrs = []struct{ ln, fill int }{{-2, 7}, {0, 7}, {3, 7}, {3, 92}, {2, 0}, {5, 40}}
var probeInts = []int{-3, 0, 1, 2, 5}
var probeIdx = []int{-1, 0, 1, 4}

func probeValues(srt Sort, n int) []string {
	var out []string
	switch srt {
	case SStr:
		for _, p := range probeStrs {
			out = append(out, fmt.Sprintf("(mkstr ((as const (Array Int Int)) %d) %s)", p.fill, smtInt(int64(p.ln))))
		}
	case SSL:
		for _, p := range probeStrs {
			out = append(out, fmt.Sprintf("(mksl ((as const (Array Int Str)) (mkstr ((as const (Array Int Int)) %d) %s)) %s)", p.fill, smtInt(int64(p.ln)), smtInt(int64(p.ln))))
		}
	case SIL:
		for _, p := range probeStrs {
			out = append(out, fmt.Sprintf("(mkil ((as const (Array Int Int)) %d) %s)", p.fill, smtInt(int64(p.ln))))
		}
	case SBool:
		out = []string{"true", "false"}
	default:
		for _, v := range probeInts {
			out = append(out, smtInt(int64(v)))
		}
	}
	return out
}

// probeText: all argument combinations (capped) of fn, result read back.
func probeText(fn string, psorts []Sort, rsort Sort, cap int) string {
	var combos [][]string
	var rec func(i int, cur []string)
	rec = func(i int, cur []string) {
		if i == len(psorts) {
			combos = append(combos, append([]string{}, cur...))
			return
		}
		for _, v := range probeValues(psorts[i], i) {
			rec(i+1, append(cur, v))
		}
	}
	rec(0, nil)
	// deterministic thinning
	if len(combos) > cap {
		step := len(combos)/cap + 1
		var th [][]string
		for i := 0; i < len(combos); i += step {
			th = append(th, combos[i])
		}
		// always keep the first and the last grid point per argument
		combos = append(th, combos[len(combos)-1])
	}
	// results are handed to uninterpreted "keep" predicates: an equation with a fresh
	// constant would be eliminated by the solvers' preprocessing and the ground terms the
	// axioms' patterns need would disappear with it
	keep := map[Sort]string{SInt: "keepI", SBool: "keepB", SStr: "keepS", SSL: "keepL", SIL: "keepIL"}
	var b strings.Builder
	for _, c := range combos {
		app := "(" + fn + " " + strings.Join(c, " ") + ")"
		if len(c) == 0 {
			app = fn
		}
		fmt.Fprintf(&b, "(assert (%s %s))\n", keep[rsort], app)
		switch rsort {
		case SStr:
			for _, k := range probeIdx {
				fmt.Fprintf(&b, "(assert (keepI (select (chars %s) %s)))\n", app, smtInt(int64(k)))
			}
			fmt.Fprintf(&b, "(assert (keepI (slen %s)))\n", app)
		case SSL:
			for _, k := range probeIdx {
				fmt.Fprintf(&b, "(assert (keepS (select (items %s) %s)))\n", app, smtInt(int64(k)))
				fmt.Fprintf(&b, "(assert (keepI (select (chars (select (items %s) %s)) 0)))\n", app, smtInt(int64(k)))
			}
			fmt.Fprintf(&b, "(assert (keepI (sllen %s)))\n", app)
		case SIL:
			for _, k := range probeIdx {
				fmt.Fprintf(&b, "(assert (keepI (select (ints %s) %s)))\n", app, smtInt(int64(k)))
			}
			fmt.Fprintf(&b, "(assert (keepI (illen %s)))\n", app)
		}
		// argument reads (patterns over the arguments' elements)
		for ai, a := range c {
			if psorts[ai] == SStr {
				for _, k := range probeIdx {
					fmt.Fprintf(&b, "(assert (keepI (select (chars %s) %s)))\n", a, smtInt(int64(k)))
				}
			}
		}
	}
	return b.String()
}

const keepDecls = "(declare-fun keepI (Int) Bool)\n(declare-fun keepB (Bool) Bool)\n(declare-fun keepS (Str) Bool)\n(declare-fun keepL (SL) Bool)\n(declare-fun keepIL (IL) Bool)\n"

func (w *World) axiomProbes() []axiomProbe {
	var out []axiomProbe
	add := func(name, decls, body string) {
		out = append(out, axiomProbe{name, preambleArray + keepDecls + decls + body + "(check-sat)\n"})
	}
	add("scat", "", probeText("scat", []Sort{SStr, SStr}, SStr, 40))
	add("ssub", "", probeText("ssub", []Sort{SStr, SInt, SInt}, SStr, 60))
	add("slsub", "", probeText("slsub", []Sort{SSL, SInt, SInt}, SSL, 60))
	add("slcat", "", probeText("slcat", []Sort{SSL, SSL}, SSL, 40))
	add("itoa", itoaDecl, probeText("itoa", []Sort{SInt}, SStr, 10))
	add("hexs", hexDecl, probeText("hexs", []Sort{SInt}, SStr, 10))
	for _, sf := range w.specList {
		if sf.err != "" {
			continue
		}
		ok := true
		for _, s := range append(append([]Sort{}, sf.psorts...), sf.rsort) {
			if s != SStr && s != SSL && s != SIL && s != SInt && s != SBool {
				ok = false
			}
		}
		if !ok {
			continue
		}
		body := probeText(sf.smtName, sf.psorts, sf.rsort, 24)
		spec := w.specText(body)
		decls := litDefs(body+spec, false)
		if strings.Contains(body+spec, "(itoa ") {
			decls += itoaDecl
		}
		if strings.Contains(body+spec, "(hexs ") {
			decls += hexDecl
		}
		if strings.Contains(body+spec, "(fsread ") {
			decls += "(declare-fun fsread (Str Int) Str)\n"
		}
		if strings.Contains(body+spec, "(rematchdyn ") {
			decls += "(declare-fun rematchdyn (Str Str) Bool)\n"
		}
		if strings.Contains(body+spec, "(reobj_") {
			decls += "(declare-fun reobj_span (Int Str) Bool)\n(declare-fun reobj_any (Int Str) Bool)\n"
		}
		decls += w.regexUFDecls(body + spec)
		add("spec:"+sf.smtName, decls+spec, body)
	}
	// per-literal regex functions: every literal that was given an id while generating
	var lits []string
	for lit := range w.regexIDs {
		lits = append(lits, lit)
	}
	sortStrings(lits)
	for _, lit := range lits {
		id := w.regexIDs[lit]
		ri := w.regexInfo(lit)
		var body strings.Builder
		for n, v := range probeValues(SStr, 0) {
			_ = n
			fmt.Fprintf(&body, "(assert (keepB (rematch_%s %s)))\n", id, v)
		}
		for k := 0; k <= ri.NumSubexp; k++ {
			body.WriteString(probeText(fmt.Sprintf("regroup_%s_%d", id, k), []Sort{SStr}, SStr, 10))
		}
		body.WriteString(probeText("rereplace_"+id, []Sort{SStr, SStr}, SStr, 12))
		t := body.String()
		add("regex:"+id, w.regexUFDecls(t), t)
	}
	return out
}

// runAxiomProbes returns the names of refuted probes (must be empty) and the number run.
func (w *World) runAxiomProbes(timeout time.Duration, only func(name string) bool) (failed []string, n int, ms int64) {
	probes := w.axiomProbes()
	var sel []axiomProbe
	for _, p := range probes {
		if only == nil || only(p.name) {
			sel = append(sel, p)
		}
	}
	res := make([]SolverResult, len(sel))
	start := time.Now()
	runParallel(len(sel), 8, func(i int) {
		res[i] = solve(sel[i].text, arraySolvers, timeout)
	})
	ms = time.Since(start).Milliseconds()
	for i, r := range res {
		if r.Status == "unsat" || r.Status == "error" {
			failed = append(failed, fmt.Sprintf("%s: %s by %s %s", sel[i].name, r.Status, r.Solver, strings.TrimSpace(firstLines(r.Output, 3))))
		}
	}
	return failed, len(sel), ms
}

// axiomProbeObligation: the probes of every axiomatised symbol that the selected
// obligations mention (closed under spec-function dependencies by specText), as one
// vacuity canary of the run.
func (r *Run) axiomProbeObligation(sel []*Obligation, prop string) *Obligation {
	var blob strings.Builder
	for _, ob := range sel {
		for _, q := range ob.Queries {
			for _, h := range q.Hyps {
				blob.WriteString(h)
				blob.WriteByte('\n')
			}
			blob.WriteString(q.Goal)
			blob.WriteByte('\n')
		}
		if fc := r.owner[ob]; fc != nil {
			for _, h := range fc.initAssume {
				blob.WriteString(h)
				blob.WriteByte('\n')
			}
		}
	}
	text := blob.String()
	text += r.w.specText(text)
	ob := &Obligation{Name: "govc.axioms/probes", Func: "govc.axioms", Kind: "canary", Tags: []string{prop}, MustFail: true,
		Descr: "axiom probes: the axioms of every function symbol used by this property stay satisfiable on a grid of well-formed and ill-formed arguments"}
	ob.Run = func(ob *Obligation, timeout time.Duration) {
		only := func(name string) bool {
			switch {
			case strings.HasPrefix(name, "spec:"):
				return containsSym(text, name[5:])
			case strings.HasPrefix(name, "regex:"):
				id := name[6:]
				return strings.Contains(text, "_"+id+" ") || strings.Contains(text, "_"+id+"_")
			case name == "itoa" || name == "hexs":
				return strings.Contains(text, "("+name+" ")
			}
			return true
		}
		failed, n, ms := r.w.runAxiomProbes(2*time.Second, only)
		ob.Ms = ms
		ob.Cases = n
		ob.Solver = "z3-4.8.12,z3-5.1.0,cvc5-1.0.3"
		if len(failed) > 0 {
			ob.Status = "failed"
			ob.Detail = "INCONSISTENT AXIOMS (every proof of this run is void): " + strings.Join(failed, "; ")
			return
		}
		ob.Status = "discharged"
		ob.Detail = fmt.Sprintf("%d axiom probes, none refutable", n)
	}
	return ob
}

func cmdAxioms(args []string) int {
	repo := "/repo"
	dump := ""
	for i := 0; i < len(args); i++ {
		if args[i] == "--repo" && i+1 < len(args) {
			repo = args[i+1]
			i++
		}
		if args[i] == "--dump" && i+1 < len(args) {
			dump = args[i+1]
			i++
		}
	}
	r, err := generate(repo)
	if err != nil {
		fmt.Fprintln(os.Stderr, err)
		return 2
	}
	if dump != "" {
		for _, p := range r.w.axiomProbes() {
			if p.name == dump {
				fmt.Print(p.text)
			}
		}
		return 0
	}
	failed, n, ms := r.w.runAxiomProbes(3*time.Second, nil)
	fmt.Printf("axiom probes: %d run, %d refuted, %d ms\n", n, len(failed), ms)
	for _, f := range failed {
		fmt.Println("  INCONSISTENT", f)
	}
	if len(failed) > 0 {
		return 1
	}
	return 0
}
